"""C01 -- the parse cache is transparent over any cache history.

The REAL functions pymoca.parser.parse and _check_database_structure are executed symbolically against a contract model
of their environment: sqlite3 (a table of contracts KEYED BY THE SQL TEXT READ FROM THE SOURCE, whitespace-normalised),
pickle, os.remove, hashing, the clock and _parse (the uncached parser, an uninterpreted function P of the text).

The history quantifier (hits, misses, pruning, damaged entries, wrong layouts, a corrupt file, version changes, clock
changes, module reloads, in any order) is discharged by making the PRE-STATE OF EVERY SINGLE CALL ARBITRARY: corruption,
layout changes and the rest can happen between any two calls, so nothing is assumed about the cache folder or about
parse.initialized_dbs except the cache invariant

  J:  every row (h, v, blob) of a models table is either unloadable (pickle.loads raises, or gives None), or
      blob = dumps(P(t)) for the text t with sha256(t) = h under pymoca version v, and then P(t) is a tree (not None).

Obligations per call (for every environment state):
  * no exception reaches the caller because of the cache (only what _parse itself raises);
  * the result is structurally P(txt): a cached tree is only served from a row J calls valid for (sha256(txt), version);
    the result is None exactly when P(txt) is None;
  * a failed parse (None) is never written; the only rows written carry dumps(_parse(txt)) under (sha256(txt), version)
    -- so J holds again afterwards (the inductive step over the history);
  * with bypass_cache or a '.dirty' version the cache folder is not touched at all.
"""
import re

import z3

from pyvc.engine import exc_class as EXC_CLASS

from pyvc import ops
from pyvc.engine import EXC, exc_class, make_exc
from pyvc.values import Ext, NoOp, PyRaise, Unsupported, VClass, VDict, VFunc, VList, VObj, VSet, stub

from .api_common import ModuleStub
from .ast_common import base_modules

PARSER = "pymoca.parser"

UNPICKLE_FAILURES = ["UnpicklingError", "EOFError", "AttributeError", "ModuleNotFoundError", "ImportError", "IndexError", "TypeError", "ValueError", "KeyError"]
MODELS_COLUMNS = [(0, "txt_hash", "TEXT", 0, None, 1), (1, "pymoca_version", "TEXT", 0, None, 2), (2, "data", "BLOB", 0, None, 0), (3, "last_hit", "TIMESTAMP INTEGER", 0, None, 0)]
METADATA_COLUMNS = [(0, "key", "TEXT", 0, None, 1), (1, "value", "TEXT", 0, None, 0)]


def norm(sql):
    return re.sub(r"\s+", " ", sql).strip().rstrip(";").strip()


class Lazy:
    """an environment fact chosen (by forking) the first time the code's behaviour depends on it"""

    def __init__(self, eng, name, options):
        self.eng, self.name, self.options, self.value = eng, name, options, None

    def get(self):
        if self.value is None:
            self.value = self.options[self.eng.choice(len(self.options))]
            self.eng.named_inputs["env." + self.name] = self.value
        return self.value

    def set(self, v):
        self.value = v


class World:
    def __init__(self, eng):
        self.eng = eng
        # the database file as this call finds it
        self.file = Lazy(eng, "database_file", ["absent", "garbage", "database"])
        self.integrity = Lazy(eng, "integrity_check", ["ok", "reports-damage"])
        self.spelling = Lazy(eng, "cache_folder_spelling", ["canonical", "not canonical (relative / through a link)"])
        eng.c01_world = self
        # tables: missing | ok | wrong layout that still has the columns used (extra column / other key) | wrong layout lacking them
        self.models = Lazy(eng, "models_table", ["missing", "ok", "wrong-layout-compatible", "wrong-layout-incompatible"])
        self.metadata = Lazy(eng, "metadata_table", ["missing", "ok", "wrong-layout-compatible", "wrong-layout-incompatible"])
        # the row stored under (sha256(txt), current version), if the models table can hold one
        self.row = Lazy(eng, "row_for_this_text_and_version", ["none", "valid", "unpickles-to-None"] + ["damaged:" + e for e in UNPICKLE_FAILURES])
        self.row_last_hit = eng.fresh_int("row_last_hit")
        self.parse_outcome = Lazy(eng, "uncached_parse", ["tree", "None (syntax error)", "raises"])
        self.fresh_tree = VObj(VClass("Tree"), {"origin": "fresh parse of txt"})
        self.cached_tree = VObj(VClass("Tree"), {"origin": "loads(dumps(P(txt))) -- structurally P(txt) by J"})
        self.connects = 0
        self.removed = 0
        self.written = []           # rows written into models: (hash, version, data)
        self.parse_calls = 0
        self.statements = []
        self.clock = []
        self.open_connections = 0

    # --- sqlite3 -------------------------------------------------------------------------------
    def db_error(self, kind, msg):
        mod = self.sqlite
        raise PyRaise(VObj(mod.attrs[kind], {"args": (msg,)}))

    def table(self, which):
        return self.models if which == "models" else self.metadata

    def usable(self, which):
        return self.table(which).get() in ("ok", "wrong-layout-compatible")

    def execute(self, cur, sql, params):
        s = norm(sql)
        self.statements.append(s)
        cur.result = None
        if s in ("BEGIN TRANSACTION",):
            return          # a deferred BEGIN does not read the file
        if self.file.get() == "garbage":
            self.db_error("DatabaseError", "file is not a database")
        if self.file.get() == "absent":
            # sqlite creates an empty database on first use
            self.file.set("database")
            self.models.set("missing")
            self.metadata.set("missing")
            self.integrity.set("ok")
        if s in ("PRAGMA integrity_check", "PRAGMA quick_check"):
            # SQLite: quick_check does what integrity_check does EXCEPT verifying that index content matches table content
            seen = self.integrity.get() != "ok" if s.endswith("integrity_check") else self.integrity.get() == "reports-damage"
            cur.result = [("*** in database main ***\nPage 3: btreeInitPage() returns error code 11",)] if seen else [("ok",)]
            return
        m = re.fullmatch(r"SELECT name FROM sqlite_master WHERE type='table' AND name='(models|metadata)'", s)
        if m is None and s == "SELECT name FROM sqlite_master WHERE type='table' AND name=?" and len(params) == 1 and params[0] in ("models", "metadata"):
            m = re.fullmatch(r"(models|metadata)", params[0])       # the same question with the table name bound as a parameter
        if m:
            cur.result = [] if self.table(m.group(1)).get() == "missing" else [(m.group(1),)]
            return
        m = re.fullmatch(r"PRAGMA table_info\('(models|metadata)'\)", s)
        if m:
            st = self.table(m.group(1)).get()
            good = MODELS_COLUMNS if m.group(1) == "models" else METADATA_COLUMNS
            if st == "ok":
                cur.result = list(good)
            elif st == "missing":
                cur.result = []
            elif st == "wrong-layout-compatible":
                cur.result = list(good) + [(len(good), "extra", "TEXT", 0, None, 0)]
            else:
                cur.result = list(good)[:-1]
            return
        m = re.fullmatch(r"DROP TABLE IF EXISTS (models|metadata)", s)
        if m:
            self.table(m.group(1)).set("missing")
            if m.group(1) == "models":
                self.row.set("none")
                if self.integrity.get() == "index-damage":
                    self.integrity.set("ok")      # the damaged index goes with its table
            return
        m = re.fullmatch(r"CREATE TABLE (models|metadata) \((.*)\)", s)
        if m:
            if self.table(m.group(1)).get() != "missing":
                self.db_error("OperationalError", "table %s already exists" % m.group(1))
            cols = [c.strip() for c in m.group(2).split(",")]
            want = (["txt_hash TEXT", "pymoca_version TEXT", "data BLOB", "last_hit TIMESTAMP INTEGER", "PRIMARY KEY (txt_hash", "pymoca_version)"]
                    if m.group(1) == "models" else ["key TEXT", "value TEXT", "PRIMARY KEY (key)"])
            self.table(m.group(1)).set("ok" if cols == want else "wrong-layout-compatible")
            if m.group(1) == "models":
                self.row.set("none")
                if self.integrity.get() == "index-damage":
                    self.integrity.set("ok")
            return
        if s == "INSERT OR IGNORE INTO metadata (key, value) VALUES (?, ?)":
            if not self.usable("metadata"):
                self.db_error("OperationalError", "no such table / column: metadata")
            return
        if s == "UPDATE metadata SET value = max(value + 1, ?) WHERE key = ?":
            if not self.usable("metadata"):
                self.db_error("OperationalError", "no such table / column: metadata")
            return
        if s == "DELETE FROM models WHERE last_hit < ?":
            if not self.usable("models"):
                self.db_error("OperationalError", "no such table / column: models")
            if self.row.get() != "none":
                if self.eng.branch(self.row_last_hit < ops.to_z3(params[0])):
                    self.eng.named_inputs["env.row_pruned"] = True
                    self.row.set("none")
            return
        m = re.fullmatch(r"SELECT last_hit, data FROM models WHERE (.+)", s)
        if m:
            if not self.usable("models"):
                self.db_error("OperationalError", "no such table / column: models")
            # the lookup key is read from the WHERE clause: conjunction of  column = ?
            conds = [re.fullmatch(r"(\w+)\s*=\s*\?", c.strip()) for c in m.group(1).split(" AND ")]
            if not all(conds) or len(conds) != len(params):
                raise Unsupported("SQL statement without a contract: %r" % s)
            bound = {c.group(1): p for c, p in zip(conds, params)}
            key_ok = set(bound) == {"txt_hash", "pymoca_version"} and bound["txt_hash"] is self.txt_hash and bound["pymoca_version"] == self.version
            if not key_ok:
                # a lookup under another key: J says nothing useful about what it finds -- any row, even a valid tree of
                # ANOTHER text / version
                cur.result = [(self.row_last_hit, Blob("valid-for-another-key"))]
                return
            if self.integrity.get() == "index-damage":
                # a primary-key lookup goes through the index: with an index that does not match the table it may land on the row of
                # another key (or on none)
                cur.result = [(self.row_last_hit, Blob("valid-for-another-key"))]
                return
            cur.result = [] if self.row.get() == "none" else [(self.row_last_hit, Blob(self.row.get()))]
            return
        if s == "UPDATE models SET last_hit = max(last_hit + 1, ?) WHERE txt_hash = ? AND pymoca_version = ?":
            if not self.usable("models"):
                self.db_error("OperationalError", "no such table / column: models")
            return
        if s == "INSERT OR REPLACE INTO models (txt_hash, pymoca_version, data, last_hit) VALUES (?, ?, ?, ?)":
            if not self.usable("models"):
                self.db_error("OperationalError", "no such table / column: models")
            self.written.append(tuple(params))
            return
        raise Unsupported("SQL statement without a contract: %r" % s)


class Blob(Ext):
    """the data column of a cache row; what it starts with is not known (any byte, for a valid and for a damaged entry alike)"""
    type_names = ("bytes",)

    def __init__(self, kind):
        self.kind = kind

    def sym_getitem(self, eng, key):
        return BlobPart(self)

    def sym_len(self, eng):
        n = eng.fresh_int("blob_len")
        eng.assume(n >= 0)
        return n


class BlobPart(Ext):
    """a slice / byte of a stored blob: comparing it with a constant can go either way"""
    type_names = ("bytes",)

    def __init__(self, blob):
        self.blob = blob

    def sym_eq(self, eng, other):
        return eng.fresh_bool("blob_part_equals_constant")

    def sym_getattr(self, eng, name):
        if name in ("startswith", "endswith"):
            return stub(lambda eng, *a: eng.fresh_bool("blob_part_" + name))
        raise Unsupported("bytes.%s on part of a stored blob" % name)


def codec_module(name):
    """zlib / gzip / bz2 / lzma as transparent codecs: decompress(compress(x)) is x (so an entry the code wrote itself decodes to what
    it encoded -- the encoded form is not distinguished from the plain one), and decompress of a DAMAGED entry raises the module's
    error (zlib.error; OSError / EOFError for gzip, OSError for bz2, LZMAError for lzma)"""
    err = {"zlib": VClass("error", [EXC["Exception"]]), "gzip": EXC["OSError"], "bz2": EXC["OSError"], "lzma": VClass("LZMAError", [EXC["Exception"]])}[name]

    def compress(eng, data, *a, **k):
        return data

    def decompress(eng, data, *a, **k):
        if isinstance(data, Blob) and data.kind.startswith("damaged"):
            raise PyRaise(VObj(err, {"args": ("invalid compressed data",)}))
        return data
    return ModuleStub(name, {"compress": stub(compress), "decompress": stub(decompress), "error": err, "LZMAError": err, "BadGzipFile": err,
                             "Z_BEST_SPEED": 1, "Z_BEST_COMPRESSION": 9, "Z_DEFAULT_COMPRESSION": -1})


class Cursor(Ext):
    def __init__(self, w, conn):
        self.w, self.conn, self.result = w, conn, None

    def sym_getattr(self, eng, name):
        w = self.w
        if name == "execute":
            def ex(eng, sql, params=()):
                if self.conn.closed:
                    w.db_error("ProgrammingError", "Cannot operate on a closed database.")
                p = list(params.items) if isinstance(params, VList) else list(params)
                w.execute(self, sql, p)
                return self
            return stub(ex)
        if name == "fetchone":
            return stub(lambda eng: (self.result[0] if self.result else None))
        if name == "fetchall":
            return stub(lambda eng: VList(list(self.result or [])))
        raise Unsupported("cursor.%s" % name)


class Conn(Ext):
    def __init__(self, w):
        self.w, self.closed = w, False

    def sym_getattr(self, eng, name):
        if name == "cursor":
            return stub(lambda eng: Cursor(self.w, self))
        if name == "commit":
            return stub(lambda eng: None)
        if name == "close":
            def close(eng):
                if not self.closed:
                    self.w.open_connections -= 1
                self.closed = True
            return stub(close)
        raise Unsupported("connection.%s" % name)


class DbPath(Ext):
    """pathlib.Path of the cache folder / database file (identity by label)"""

    def __init__(self, label):
        self.label = label

    def sym_eq(self, eng, other):
        return isinstance(other, DbPath) and other.label == self.label

    def __hash__(self):
        return hash(self.label)

    def __eq__(self, other):
        return isinstance(other, DbPath) and other.label == self.label

    def sym_binop(self, eng, op, other, reflected):
        if op in ("Div", "TrueDiv", "/") and not reflected:
            return DbPath(self.label + "/" + str(other))
        raise Unsupported("path operator %s" % op)

    def sym_getattr(self, eng, name):
        if name == "mkdir":
            return stub(lambda eng, *a, **k: None)
        if name == "expanduser":
            return stub(lambda eng: self)
        if name in ("resolve", "absolute"):
            # the folder may be given in a spelling that is not its canonical location (relative, through a link, with ..): then the
            # resolved path is ANOTHER path object value than the one the caller passed
            def resolve(eng, *a, **k):
                w_ = getattr(eng, "c01_world", None)
                if self.label.startswith("<canonical>") or w_ is None:
                    return self
                if w_.spelling.get() == "canonical":
                    return self
                return DbPath("<canonical>" + self.label)
            return stub(resolve)
        if name in ("name", "stem"):
            return self.label.split("/")[-1]
        if name == "parent":
            return DbPath("/".join(self.label.split("/")[:-1]))
        if name in ("exists", "is_file"):
            return stub(lambda eng: True)
        raise Unsupported("Path.%s" % name)


def install(eng, w, version):
    base_modules(eng)
    w.version = version
    w.txt = "<the model text>"
    w.txt_hash = ("sha256", w.txt)
    excs = {}
    err = VClass("Error", [EXC["Exception"]])
    dbe = VClass("DatabaseError", [err])
    excs.update({"Error": err, "DatabaseError": dbe, "OperationalError": VClass("OperationalError", [dbe]),
                 "IntegrityError": VClass("IntegrityError", [dbe]), "ProgrammingError": VClass("ProgrammingError", [dbe]),
                 "Connection": VClass("Connection")})

    def connect(eng, path, **kw):
        w.connects += 1
        w.open_connections += 1
        w.connected_paths = getattr(w, "connected_paths", []) + [path]
        return Conn(w)
    excs["connect"] = stub(connect)
    w.sqlite = ModuleStub("sqlite3", excs)
    unp = VClass("UnpicklingError", [EXC["Exception"]])

    def loads(eng, blob):
        kind = blob.kind if isinstance(blob, Blob) else "?"
        w.loaded = kind
        if kind == "valid":
            return w.cached_tree
        if kind == "valid-for-another-key":
            return VObj(VClass("Tree"), {"origin": "the tree of ANOTHER text or version"})
        if kind == "unpickles-to-None":
            return None
        if kind.startswith("damaged:"):
            name = kind.split(":")[1]
            cls = unp if name == "UnpicklingError" else exc_class(name)
            raise PyRaise(VObj(cls, {"args": ("damaged cache entry",)}))
        raise Unsupported("pickle.loads of %r" % (blob,))

    def dumps(eng, obj):
        return ("dumps", obj)
    pk = ModuleStub("pickle", {"loads": stub(loads), "dumps": stub(dumps), "UnpicklingError": unp})

    def remove(eng, path):
        w.removed += 1
        if w.file.get() == "absent":
            raise PyRaise(make_exc("FileNotFoundError", "no such file"))
        w.file.set("absent")
    osmod = ModuleStub("os", {"remove": stub(remove), "getenv": stub(lambda eng, *a: None),
                              "path": ModuleStub("os.path", {"dirname": stub(lambda eng, p: "."), "realpath": stub(lambda eng, p: ".")})})
    for m in ("hashlib", "platform", "time", "antlr4", "antlr4.Parser", "pathlib", "datetime"):
        eng.ext_modules[m] = ModuleStub(m, {"timedelta": stub(lambda eng, **k: ("timedelta", k)), "Path": NoOp(), "Parser": NoOp()})
    eng.ext_modules["sqlite3"] = w.sqlite
    for codec in ("zlib", "gzip", "bz2", "lzma"):
        eng.ext_modules[codec] = codec_module(codec)
    eng.ext_modules["pickle"] = pk
    eng.ext_modules["os"] = osmod
    eng.ext_modules["pymoca"] = ModuleStub("pymoca", {"__version__": version})
    eng.ext_modules["pymoca.generated.ModelicaLexer"] = ModuleStub("lexer", {"ModelicaLexer": VClass("ModelicaLexer")})
    eng.ext_modules["pymoca.generated.ModelicaListener"] = ModuleStub("listener", {"ModelicaListener": VClass("ModelicaListener")})
    eng.ext_modules["pymoca.generated.ModelicaParser"] = ModuleStub("parser", {"ModelicaParser": NoOp()})

    def _parse(eng, args, kwargs):
        w.parse_calls += 1
        w.parse_args = list(args)
        out = w.parse_outcome.get()
        if out == "tree":
            return w.fresh_tree
        if out.startswith("None"):
            return None
        raise PyRaise(make_exc("IOError", "x", "already defined"))

    def _hash(eng, args, kwargs):
        if args[0] != w.txt:
            raise Unsupported("hash of something that is not the text")
        return w.txt_hash

    def _now(eng, args, kwargs):
        t = eng.fresh_int("clock")
        w.clock.append(t)
        return t

    def _default_path(eng, args, kwargs):
        return DbPath("<default cache folder>")
    eng.call_contracts["_parse"] = _parse
    eng.call_contracts["_calculate_txt_hash"] = _hash
    eng.call_contracts["_microseconds_since_epoch"] = _now
    eng.call_contracts["_get_default_cache_path"] = _default_path


def exc_name(e):
    return e.exc.cls.name if isinstance(e.exc, VObj) else repr(e.exc)


def h_parse(eng):
    eng.max_paths = 12000       # every environment pre-state is one path (about 2000)
    w = World(eng)
    install(eng, w, "1.2.3+4.gabcdef")
    f = eng.find_function(PARSER, "parse")
    eng.find_function(PARSER, "_check_database_structure")
    # parse.initialized_dbs: absent (fresh module / reload), or a set that may or may not hold this database's path --
    # and NOTHING about the file follows from that (it may have been damaged after it was checked)
    folder = DbPath("<folder>")
    init = ["attribute absent (module just loaded)", "set without this database", "set with this database"][eng.choice(3)]
    eng.input("parse.initialized_dbs", init)
    if init != "attribute absent (module just loaded)":
        s = VSet([DbPath("<folder>/other.db")] + ([DbPath("<folder>/cache.db")] if init.endswith("with this database") else []))
        eng.setattr(f, "initialized_dbs", s)
    if not init.endswith("with this database"):
        # damage that only a full integrity check finds (index content not matching the table).  Fault model: the file is as it was
        # when this process first met it; damage arriving AFTER that first check is not modelled for this kind
        w.integrity = Lazy(eng, "integrity_check", ["ok", "reports-damage", "index-damage"])
    always = bool(eng.choice(2))
    eng.input("always_update_last_hit", always)
    # the default-folder branch is exercised together with the fresh-module case (it does not interact with the rest)
    default_folder = init.startswith("attribute absent")
    depth = {"n": 0}

    def reenter(eng, args, kwargs):
        depth["n"] += 1
        if depth["n"] > 4:
            # the same call with the same arguments in the same state: it repeats until the interpreter gives up
            raise PyRaise(VObj(eng.builtins["RecursionError"] if "RecursionError" in eng.builtins else EXC_CLASS("RecursionError"), {"args": ("parse() retries itself without end",)}))
        return eng.call_function(f, list(args), kwargs, bypass_contract=True)
    eng.call_contracts["parse"] = reenter
    try:
        r = eng.call(f, [w.txt], {"model_cache_folder": None if default_folder else folder, "cache_db": "cache.db",
                                 "cache_expiration_days": eng.fresh_int("expiration_days"), "always_update_last_hit": always})
    except PyRaise as e:
        from_parser = w.parse_outcome.value == "raises" and exc_name(e) == "IOError"
        eng.cover("parse.raises")
        # (P) only what the uncached parser itself raises reaches the caller
        eng.prove("parse.no_exception_because_of_the_cache_state", z3.BoolVal(from_parser), raised=exc_name(e), args=str(getattr(e.exc, "fields", {}).get("args")),
                  statements=w.statements[-3:])
        if from_parser:
            eng.prove("parse.nothing_written_when_the_parser_raises", z3.BoolVal(not w.written))
        return
    eng.cover("parse.returns")
    eng.cover("parse.file." + str(w.file.value))
    if w.row.value is not None:
        eng.cover("parse.row." + w.row.value.split(":")[0])
    out = w.parse_outcome.value
    if w.parse_calls == 0:
        # served from the cache: must be the row J calls valid for (sha256(txt), version)
        eng.prove("parse.cached_tree_only_from_a_valid_row_of_this_text_and_version", z3.BoolVal(r is w.cached_tree), result=str(getattr(r, "fields", r)))
        eng.cover("parse.hit")
    else:
        eng.prove("parse.uncached_parser_called_once_with_the_text", z3.BoolVal(w.parse_calls == 1 and w.parse_args == [w.txt]))
        eng.prove("parse.result_is_the_fresh_parse", z3.BoolVal((r is w.fresh_tree) if out == "tree" else (r is None)), result=str(getattr(r, "fields", r)))
        eng.cover("parse.miss")
        if out != "tree":
            eng.cover("parse.syntax_error")
    # (P) a failed parse is never stored; only dumps(_parse(txt)) under (sha256(txt), version) is written (J preserved)
    bad = [x for x in w.written if not (len(x) == 4 and x[0] is w.txt_hash and x[1] == w.version and x[2] == ("dumps", w.fresh_tree) and out == "tree")]
    eng.prove("parse.only_the_fresh_tree_is_written_under_its_own_key", z3.BoolVal(not bad), written=str(bad[:2]))
    if out != "tree" and w.parse_calls:
        eng.prove("parse.failed_parse_is_never_stored", z3.BoolVal(not w.written))
    if out == "tree" and w.parse_calls:
        eng.prove("parse.fresh_tree_is_stored_for_the_next_call", z3.BoolVal(len(w.written) == 1))
    eng.prove("parse.every_connection_is_closed", z3.BoolVal(w.open_connections == 0), open=w.open_connections)


def h_parse_after_an_earlier_call(eng):
    """a two-call history in one process, with whatever the FIRST real call left in parse's own memo (not a memo state written by hand):
    call 1 on a sound database; then the file is damaged in any way (garbage, removed, a wrong layout, a damaged row); call 2 -- under
    any spelling of the cache folder -- still returns the fresh parse (or the valid row) and raises nothing because of the cache."""
    eng.max_paths = 6000
    w = World(eng)
    install(eng, w, "1.2.3+4.gabcdef")
    f = eng.find_function(PARSER, "parse")
    eng.find_function(PARSER, "_check_database_structure")
    folder = DbPath("<folder>")
    depth = {"n": 0}

    def reenter(eng, args, kwargs):
        depth["n"] += 1
        if depth["n"] > 4:
            raise PyRaise(VObj(EXC_CLASS("RecursionError"), {"args": ("parse() retries itself without end",)}))
        return eng.call_function(f, list(args), kwargs, bypass_contract=True)
    eng.call_contracts["parse"] = reenter
    # ---- call 1: a sound database without a row for this text
    for lz, val in ((w.file, "database"), (w.integrity, "ok"), (w.models, "ok"), (w.metadata, "ok"), (w.row, "none"), (w.parse_outcome, "tree")):
        lz.set(val)
    kw = {"model_cache_folder": folder, "cache_db": "cache.db", "cache_expiration_days": 30, "always_update_last_hit": False}
    try:
        eng.call(f, [w.txt], dict(kw))
    except PyRaise as e:
        eng.prove("history2.first_call_on_a_sound_database_succeeds", False, raised=exc_name(e))
        return
    # ---- late damage: the second call finds an arbitrary file again
    w.file = Lazy(eng, "database_file_at_second_call", ["absent", "garbage", "database"])
    w.integrity = Lazy(eng, "integrity_check_at_second_call", ["ok", "reports-damage"])
    w.models = Lazy(eng, "models_table_at_second_call", ["missing", "ok", "wrong-layout-compatible", "wrong-layout-incompatible"])
    w.metadata = Lazy(eng, "metadata_table_at_second_call", ["missing", "ok", "wrong-layout-incompatible"])
    w.row = Lazy(eng, "row_at_second_call", ["none", "valid", "damaged:EOFError"])
    w.parse_outcome = Lazy(eng, "uncached_parse_at_second_call", ["tree", "None (syntax error)"])
    w.written, w.parse_calls, w.statements = [], 0, []
    depth["n"] = 0
    try:
        r = eng.call(f, [w.txt], dict(kw))
    except PyRaise as e:
        eng.cover("history2.raises")
        eng.prove("history2.second_call_raises_nothing_because_of_the_cache", False, raised=exc_name(e), statements=w.statements[-3:])
        return
    eng.cover("history2.returns")
    eng.prove("history2.second_call_raises_nothing_because_of_the_cache", True)
    out = w.parse_outcome.value
    if w.parse_calls == 0:
        eng.prove("history2.cached_tree_only_from_a_valid_row", z3.BoolVal(r is w.cached_tree))
    else:
        eng.prove("history2.result_is_the_fresh_parse", z3.BoolVal((r is w.fresh_tree) if out == "tree" else (r is None)))
    eng.prove("history2.every_connection_is_closed", z3.BoolVal(w.open_connections == 0))


def h_bypass(eng):
    w = World(eng)
    which = eng.choice(2)
    install(eng, w, "1.2.3+4.gabcdef" if which == 0 else "1.2.3+4.gabcdef.dirty")
    f = eng.find_function(PARSER, "parse")
    eng.input("bypass", ["bypass_cache=True", "dirty version"][which])
    try:
        r = eng.call(f, [w.txt], {"model_cache_folder": DbPath("<folder>"), "bypass_cache": which == 0})
    except PyRaise as e:
        eng.prove("bypass.only_the_parsers_exception", z3.BoolVal(w.parse_outcome.value == "raises" and exc_name(e) == "IOError"))
        eng.prove("bypass.cache_folder_not_touched", z3.BoolVal(w.connects == 0 and w.removed == 0))
        return
    eng.cover("bypass.case%d" % which)
    out = w.parse_outcome.value
    eng.prove("bypass.result_is_the_fresh_parse", z3.BoolVal(w.parse_calls == 1 and ((r is w.fresh_tree) if out == "tree" else (r is None))))
    eng.prove("bypass.cache_folder_not_touched", z3.BoolVal(w.connects == 0 and w.removed == 0 and not w.statements))


def h_structure(eng):
    """_check_database_structure alone: from any table state of a readable database, both tables end up with the
    expected layout (so the statements that follow cannot fail), and a models table with the right layout keeps its rows"""
    w = World(eng)
    install(eng, w, "1.2.3+4.gabcdef")
    w.file.set("database")
    w.integrity.set("ok")
    f = eng.find_function(PARSER, "_check_database_structure")
    conn = Conn(w)
    w.open_connections = 1
    try:
        eng.call(f, [conn], {})
    except PyRaise as e:
        eng.prove("structure.never_raises_on_a_readable_database", False, raised=exc_name(e), statements=w.statements[-3:])
        return
    eng.prove("structure.both_tables_have_the_expected_layout_afterwards", z3.BoolVal(w.models.value == "ok" and w.metadata.value == "ok"), models=w.models.value, metadata=w.metadata.value)
    first = eng.named_inputs.get("env.models_table")
    if first == "ok":
        eng.prove("structure.a_correct_models_table_is_kept", z3.BoolVal(not any(s.startswith("DROP TABLE IF EXISTS models") or s.startswith("CREATE TABLE models") for s in w.statements)))
        eng.cover("structure.kept")
    else:
        eng.prove("structure.a_wrong_or_missing_models_table_is_recreated_empty", z3.BoolVal(w.row.value == "none"))
        eng.cover("structure.recreated")


class Text(Ext):
    """the model text, for EVERY text: the only thing the key computation may do with it is encode it as UTF-8"""

    def sym_getattr(self, eng, name):
        if name == "encode":
            def enc(eng, encoding="utf-8", errors="strict"):
                return ("bytes of the text", encoding.lower().replace("_", "-"), errors)
            return stub(enc)
        # any other string operation yields text DERIVED from the model text (lines, a replacement, a stripped copy ...): hashing that is
        # not hashing the exact text, and the obligation on the digest says so
        return stub(lambda eng, *a, _n=name, **k: VList([Derived(_n)]) if _n in ("splitlines", "split", "rsplit", "partition") else Derived(_n))


class Derived(Ext):
    """a string computed from the model text by some operation other than encoding it"""
    type_names = ("str",)

    def __init__(self, how):
        self.how = how

    def sym_getattr(self, eng, name):
        if name == "encode":
            return stub(lambda eng, *a, **k: ("bytes of text.%s(...)" % self.how,))
        return stub(lambda eng, *a, _n=name, **k: Derived(self.how + "." + _n))

    def sym_binop(self, eng, op, other, reflected):
        return Derived(self.how + " " + op)


class Hasher(Ext):
    def __init__(self, algo, initial=()):
        self.algo, self.updates = algo, list(initial)       # sha256(data) is sha256() followed by update(data)

    def sym_getattr(self, eng, name):
        if name == "update":
            return stub(lambda eng, data: self.updates.append(data))
        if name == "hexdigest":
            return stub(lambda eng: ("hexdigest", self.algo, tuple(self.updates)))
        raise Unsupported("hash object .%s" % name)


def h_key(eng):
    """_calculate_txt_hash: the cache key is the SHA-256 digest of exactly the text's UTF-8 bytes (so, SHA-256 being
    collision-free for practical purposes, two different texts never share a row)"""
    w = World(eng)
    install(eng, w, "1.2.3+4.gabcdef")
    del eng.call_contracts["_calculate_txt_hash"]
    eng.ext_modules["hashlib"] = ModuleStub("hashlib", {"sha256": stub(lambda eng, *a: Hasher("sha256", a))})
    f = eng.find_function(PARSER, "_calculate_txt_hash")
    r = eng.call(f, [Text()], {})
    eng.cover("key")
    eng.prove("key.is_the_sha256_of_exactly_the_texts_utf8_bytes", z3.BoolVal(r == ("hexdigest", "sha256", (("bytes of the text", "utf-8", "strict"),))), got=str(r))


HARNESSES = [("cache key", h_key), ("parse over every cache state", h_parse), ("parse after an earlier call of the same process, then late damage", h_parse_after_an_earlier_call), ("bypass and dirty version", h_bypass), ("_check_database_structure", h_structure)]
EXPECTED_COVER = {"key", "parse.returns", "parse.hit", "parse.miss", "parse.syntax_error", "parse.file.database", "parse.row.valid", "parse.row.damaged", "parse.row.none",
                  "bypass.case0", "bypass.case1", "structure.kept", "structure.recreated", "history2.returns"}
BOUNDED = True
LEVEL = "proof"
TRUSTED = ["SQLite and the sqlite3 module, by a table of contracts keyed by the SQL text read from the source (BEGIN, PRAGMA integrity_check, SELECT .. sqlite_master, PRAGMA table_info, DROP/CREATE TABLE, INSERT OR IGNORE, "
           "DELETE .. last_hit < ?, UPDATE metadata/models, SELECT last_hit, data .. WHERE txt_hash=? AND pymoca_version=?, INSERT OR REPLACE): a garbage file makes every statement but BEGIN raise DatabaseError, a missing "
           "table or column raises OperationalError, connect() on an absent file creates an empty database; an SQL string without a contract makes the path undecided",
           "pickle: loads(dumps(t)) is structurally t; loads of a damaged blob raises UnpicklingError, EOFError, AttributeError, ImportError/ModuleNotFoundError, IndexError, TypeError, ValueError or KeyError (Python documentation: "
           "'other exceptions may also be raised during unpickling'), or yields None; that a damaged blob never unpickles to a DIFFERENT valid tree is assumed (it is part of J)",
           "SHA-256 is injective on texts (a row found under sha256(txt) belongs to txt); _parse is a function of the text",
           "os.remove, Path.mkdir succeed on the cache folder (permissions, disk space and concurrent writers are outside: C02)"]
ASSUMPTIONS = [
    "damage that only a full PRAGMA integrity_check finds (index content not matching the table; PRAGMA quick_check passes it) makes a primary-key lookup return the row of another key; it is part of the arbitrary pre-state only for a database this process has not checked yet",
    "cache invariant J on every pre-state (stated in the module docstring); its preservation is the obligation parse.only_the_fresh_tree_is_written_under_its_own_key",
    "each call's pre-state is arbitrary (file absent / garbage / database; each table missing, correct, wrong but compatible, wrong and incompatible; the row none / valid / damaged in nine ways / pickled None; "
    "parse.initialized_dbs absent, without or with this path) -- this is what discharges the history quantifier; faults DURING a call (another process, disk full) are C02's subject, not modelled",
    "timestamps are mathematical integers; the pruning comparison is decided symbolically (both outcomes explored)",
]
EXPLANATION = ("The real parse and _check_database_structure are executed symbolically for every environment pre-state against contracts of sqlite3 (keyed by SQL text), pickle, os and the clock; "
               "a bounded replay drives the real function through random histories of cache operations and faults and compares every result with an uncached parse.")
MANIFEST = {
    "category": "proof",
    "text": "pymoca.parser.parse and _check_database_structure (real source, whole functions) are executed symbolically against a contract model of sqlite3 keyed by the SQL text read from the source, pickle, os.remove, hashing, the clock and the uncached parser P. The history quantifier is discharged by making every call's pre-state arbitrary under the cache invariant J (a row under (sha256(t), v) is unloadable or dumps(P(t)) with P(t) a tree): database file absent, garbage or readable; integrity check ok or reporting damage; each table missing, correct, or wrong (with or without the columns used); the row for this text absent, valid, pickled None, or damaged in nine ways; parse.initialized_dbs absent, not containing or containing this path (with no promise about the file); always_update_last_hit either way; pruning deciding either way. Obligations: no exception reaches the caller except the uncached parser's own; a cached tree is served only from the valid row of this text and version, otherwise the result is the fresh parse (None exactly for a syntax error); only dumps(_parse(txt)) under (sha256(txt), version) is ever written and never for a failed parse (J preserved = the inductive step over histories); bypass_cache and a .dirty version never touch the folder; _check_database_structure leaves both tables with the expected layout and keeps a correct models table; every connection is closed. A bounded replay drives the real parse through random histories (hits, misses, expiry, truncated / re-classed / random blobs, wrong layouts, garbage or deleted database file, version change, clock jumps, module reload) and compares every result structurally with an uncached parse, and the stored rows with J.",
    "note": "SQLite, pickle and the file system are assumed by contract (listed in trusted_base); faults during a call and concurrent connections are C02 (not applicable to this technique).",
    "technique": "contract-based deductive verification: symbolic execution of the real function against SQL-text-keyed environment contracts with an arbitrary pre-state per call (inductive invariant over histories); bounded history replay on the real code",
    "design_ref": "DESIGN.md section 4/C01",
}
