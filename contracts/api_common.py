"""Shared environment model for the contracts on pymoca.backends.casadi.api (C19, C20, C21):
symbolic execution of the REAL load_model / transfer_model against assumed contracts of
os / fnmatch / pickle / casadi / open.

World (all symbolic unless noted):
  * cache file: absent | present with mtime T and content class
        valid(db) | unloadable (pickle.load raises one of its documented exceptions)
  * folders: the model folder and 0-2 library folders, each with 0-2 files (enumerated shapes),
    every file with a symbolic mtime and a .mo / other suffix
  * db: version string, options dict, per category 0-2 variables with symbolic shapes, one
    symbolic dependency code at an enumerated (category, variable, attribute) position
"""
import z3

from pyvc import ops
from pyvc.engine import EXC, exc_class, make_exc
from pyvc.values import Ext, NoOp, PathEnd, PyRaise, Unsupported, VBound, VClass, VDict, VList, VObj, VSlice, stub

MOD = "pymoca.backends.casadi.api"
PICKLE_EXCEPTIONS = ["UnpicklingError", "EOFError", "AttributeError", "ModuleNotFoundError", "ImportError", "IndexError",
                     "KeyError", "TypeError", "ValueError", "RuntimeError:deserialization", "RuntimeError:other"]
for _n in ("UnpicklingError", "PickleError"):
    exc_class(_n)
EXC["UnpicklingError"].bases = [exc_class("PickleError")]

ATTRS = ("value", "min", "max", "start", "fixed", "nominal")
CATEGORIES = ["states", "alg_states", "inputs", "parameters", "constants"]


class ModuleStub(Ext):
    def __init__(self, name, attrs):
        self.name, self.attrs = name, attrs

    def sym_getattr(self, eng, name):
        if name in self.attrs:
            return self.attrs[name]
        raise Unsupported("%s.%s" % (self.name, name))

    def sym_getitem(self, eng, key):
        return self


class _Chain(Ext):
    """itertools.chain: chain(*iterables) and chain.from_iterable(iterable of iterables), evaluated eagerly"""

    def sym_call(self, eng, args, kwargs):
        return VList([x for s_ in args for x in eng.iterate(s_)])

    def sym_getattr(self, eng, name):
        if name == "from_iterable":
            return stub(lambda eng, its: VList([x for s_ in eng.iterate(its) for x in eng.iterate(s_)]))
        raise Unsupported("itertools.chain.%s" % name)


def itertools_module(extra=None):
    """the part of itertools pymoca may reasonably use, with Python's semantics on finite sequences"""
    import itertools as _it

    def product(eng, *seqs, **kw):
        lists = [eng.iterate(s_) for s_ in seqs] * int(kw.get("repeat", 1))
        return VList([tuple(t) for t in _it.product(*lists)])

    def zip_longest(eng, *seqs, **kw):
        lists = [eng.iterate(s_) for s_ in seqs]
        return VList([tuple(t) for t in _it.zip_longest(*lists, fillvalue=kw.get("fillvalue"))])
    attrs = {"chain": _Chain(), "product": stub(product), "zip_longest": stub(zip_longest),
             "repeat": stub(lambda eng, x, n: VList([x] * n)),
             "accumulate": stub(lambda eng, xs: VList(list(_it.accumulate(eng.iterate(xs)))))}
    attrs.update(extra or {})
    return ModuleStub("itertools", attrs)


class PathStr(Ext):
    """a file-system path (identity = label)"""
    type_names = ("str",)

    def __init__(self, label):
        self.label = label

    def sym_eq(self, eng, other):
        return isinstance(other, PathStr) and other.label == self.label

    def sym_binop(self, eng, op, other, reflected):
        if op == "Add":
            o = other.label if isinstance(other, PathStr) else other
            return PathStr(o + self.label if reflected else self.label + o)
        raise Unsupported("path operator")

    def sym_getattr(self, eng, name):
        if name in ("startswith", "endswith"):
            return stub(lambda eng, x, _n=name: getattr(self.label, _n)(x.label if isinstance(x, PathStr) else x))
        if name in ("rstrip", "lstrip", "strip"):
            return stub(lambda eng, *a, _n=name: PathStr(getattr(self.label, _n)(*a)))
        if name == "split":
            return stub(lambda eng, *a: VList(list(self.label.split(*a))))
        raise Unsupported("str.%s on a path" % name)

    def sym_len(self, eng):
        return len(self.label)


class MXStub(Ext):
    type_names = ("MX",)

    def __init__(self, label, shape=(1, 1), origin=None):
        self.label, self.shape, self.origin = label, shape, origin

    def sym_getattr(self, eng, name):
        if name == "name":
            return stub(lambda eng: self.label)
        if name == "size":
            return stub(lambda eng: self.shape)
        if name == "size1":
            return stub(lambda eng: self.shape[0])
        if name == "size2":
            return stub(lambda eng: self.shape[1])
        raise Unsupported("MX.%s" % name)

    def sym_eq(self, eng, other):
        return self is other


class Matrix(Ext):
    """an output of variable_metadata_function: records (rows, column) selections"""
    type_names = ("MX",)

    def __init__(self, label):
        self.label = label

    def sym_getitem(self, eng, key):
        if not (isinstance(key, tuple) and len(key) == 2):
            raise Unsupported("metadata matrix subscript")
        return MXStub("%s[..]" % self.label, origin=("select", self, key[0], key[1]))

    def sym_getattr(self, eng, name):
        if name in ("full", "toarray"):
            # the numeric matrix as a NumPy array: same elements, NumPy's (row-major) reshape instead of CasADi's (column-major)
            return stub(lambda eng, *a: NumMatrix(self))
        raise Unsupported("getattr %s on Matrix" % name)


class NumMatrix(Ext):
    """DM.full(): selections of it are NumPy vectors; .reshape follows NumPy's element order"""
    type_names = ("ndarray",)

    def __init__(self, matrix):
        self.matrix = matrix

    def sym_getitem(self, eng, key):
        if not (isinstance(key, tuple) and len(key) == 2):
            raise Unsupported("metadata array subscript")
        return NumVector(MXStub("%s[..]" % self.matrix.label, origin=("select", self.matrix, key[0], key[1])))


class NumVector(Ext):
    type_names = ("ndarray",)

    def __init__(self, sel):
        self.sel = sel

    def sym_getattr(self, eng, name):
        if name == "reshape":
            def reshape(eng, *shape, **kw):
                shp = tuple(eng.iterate(shape[0])) if len(shape) == 1 and not isinstance(shape[0], int) and not ops.is_sym(shape[0]) else tuple(shape)
                colmajor = kw.get("order", "C") == "F"
                # a column of the metadata holds a variable's elements column by column: NumPy's default order puts them back
                # in place only if the variable has a single row or a single column
                return MXStub("npreshape(%s)" % self.sel.label, shp, origin=("reshape" if colmajor else "reshape-rowmajor", self.sel, shp))
            return stub(reshape)
        raise Unsupported("ndarray.%s" % name)


class FunctionStub(Ext):
    type_names = ("Function",)

    def __init__(self, label, outputs=None):
        self.label, self.outputs, self.calls = label, outputs, []

    def sym_call(self, eng, args, kwargs):
        self.calls.append(args)
        if self.outputs is None:
            raise Unsupported("call of %s" % self.label)
        return VList([Matrix("%s#%d.%s" % (self.label, len(self.calls), c)) for c in self.outputs])

    def sym_getattr(self, eng, name):
        if name in ("forward", "reverse"):
            def derive(eng, n, _k=name):
                d = FunctionStub("%s.%s(%s)" % (self.label, _k, n))
                d.derived_from = getattr(self, "derived_from", self)
                return d
            return stub(derive)
        if name == "name":
            return stub(lambda eng: self.label)
        raise Unsupported("Function.%s" % name)


class DepMatrix(Ext):
    def __init__(self, key, table):
        self.key, self.table = key, table

    def sym_getitem(self, eng, key):
        i, j = key
        return self.table.get((i, j), 0)


class World:
    pass


class Suppress(Ext):
    """contextlib.suppress(*exceptions)"""

    def __init__(self, excs):
        self.excs = excs

    def sym_getattr(self, eng, name):
        if name == "__enter__":
            return stub(lambda eng: None)
        if name == "__exit__":
            def ex(eng, typ, val, tb):
                return typ is not None and any(typ.is_subclass_of(c) for c in self.excs if isinstance(c, VClass))
            return stub(ex)
        raise Unsupported("suppress.%s" % name)


def install(eng, w):
    """ext modules of api.py; w: World"""
    eng.call_contracts.clear()
    eng.loop_specs.clear()
    mx_cls, fn_cls = VClass("MX"), VClass("Function")

    def mx_ctor(eng, c, a, k):
        v = a[0] if a else None
        if isinstance(v, MXStub):
            return MXStub("MX(%s)" % v.label, v.shape, origin=("mx", v))
        return MXStub("MX(const)", origin=("const", v))
    mx_cls.constructor = mx_ctor

    def mx_sym(eng, name, *shape):
        return MXStub(name, tuple(shape) if shape else (1, 1), origin=("sym",))
    mx_cls.attrs["sym"] = stub(mx_sym)

    def reshape(eng, m, *shape):
        return MXStub("reshape(%s)" % m.label, tuple(shape), origin=("reshape", m))

    def external(eng, name, path):
        if w.external_fails is not None and eng.branch(w.external_fails):
            raise PyRaise(make_exc("RuntimeError", "casadi: cannot load shared library"))
        fs = FunctionStub("external:" + str(name), CATEGORIES if name == "variable_metadata" else None)
        fs.library = path
        return fs

    casadi = ModuleStub("casadi", {
        "MX": mx_cls, "Function": fn_cls, "external": stub(external), "reshape": stub(reshape),
        "veccat": stub(lambda eng, *a: MXStub("veccat", origin=("veccat", a))),
        "repmat": stub(lambda eng, *a: MXStub("repmat")),
    })
    numpy = ModuleStub("numpy", {"nan": float("nan"), "inf": float("inf")})

    def getmtime(eng, p):
        if not isinstance(p, PathStr):
            raise Unsupported("getmtime of %r" % (p,))
        if p.label == w.db_label:
            if eng.branch(w.cache_absent):
                raise PyRaise(make_exc("FileNotFoundError", p.label))
            return w.cache_mtime
        if p.label in w.mtimes:
            return w.mtimes[p.label]
        raise Unsupported("mtime of unknown path %s" % p.label)

    def getsize(eng, p):
        # size of the cache file in bytes: any number >= 0 for a file an interrupted / in-progress write left, > 0 for a complete one
        lab = p.label if isinstance(p, PathStr) else str(p)
        if lab != w.db_label:
            raise Unsupported("size of %s" % lab)
        if eng.branch(w.cache_absent):
            raise PyRaise(make_exc("FileNotFoundError", lab))
        if getattr(w, "cache_size", None) is None:
            w.cache_size = eng.input("cache_file_size", eng.fresh_int("size"))
            eng.assume(w.cache_size >= (1 if w.pickle_outcome is None else 0))
        return w.cache_size

    def join(eng, *parts):
        return PathStr("/".join(x.label if isinstance(x, PathStr) else x for x in parts))

    def walk(eng, folder, followlinks=False):
        # top-down over the folder and every folder below it (a folder of the world whose path continues this one's after a "/")
        lab = folder.label if isinstance(folder, PathStr) else folder
        w.walked.append(lab)
        out = [(PathStr(lab), VList([]), VList(list(w.folders.get(lab, []))))]
        for sub in sorted(k_ for k_ in w.folders if k_.startswith(lab + "/")):
            w.walked.append(sub)
            out.append((PathStr(sub), VList([]), VList(list(w.folders[sub]))))
        return VList(out)

    def _lab(p_):
        return p_.label if isinstance(p_, PathStr) else str(p_)

    def commonprefix(eng, paths):
        # os.path.commonprefix compares CHARACTER by character, not path component by component
        labs = [_lab(p_) for p_ in eng.iterate(paths)]
        import os as _os
        return PathStr(_os.path.commonprefix(labs))

    def commonpath(eng, paths):
        labs = [_lab(p_).split("/") for p_ in eng.iterate(paths)]
        out = []
        for parts in zip(*labs):
            if len(set(parts)) != 1:
                break
            out.append(parts[0])
        return PathStr("/".join(out))

    def _fn_name(n):
        n = n.label if isinstance(n, PathStr) else n
        if not isinstance(n, str):
            raise Unsupported("fnmatch on a name that is not concrete")
        return n

    def fn_match(eng, name, pat):
        # POSIX: normcase is the identity, so fnmatch == fnmatchcase (file names of the world are concrete strings)
        import fnmatch as _fn
        if not isinstance(pat, str):
            raise Unsupported("fnmatch pattern %r" % (pat,))
        return _fn.fnmatchcase(_fn_name(name), pat)

    def fn_filter(eng, names, pat):
        return VList([n for n in eng.iterate(names) if fn_match(eng, n, pat)])

    ident = stub(lambda eng, p_, *a: p_ if isinstance(p_, PathStr) else PathStr(str(p_)))
    def world_files():
        return [(fo + "/" + fi) for fo, files in w.folders.items() for fi in files]

    def glob_match(pattern, recursive):
        """Python's glob on the world's files: a pattern part is matched by fnmatch, `*`, `?`, `[..]` and `**` never match a name that
        starts with a dot, and metacharacters in the folder part of the pattern are pattern, not text"""
        import fnmatch as _fn
        pparts = pattern.split("/")

        def part_ok(pp, name):
            if name.startswith(".") and not pp.startswith("."):
                return False
            return _fn.fnmatchcase(name, pp)

        def rec(pi, parts, ni):
            if pi == len(pparts):
                return ni == len(parts)
            pp = pparts[pi]
            if pp == "**" and recursive:
                if rec(pi + 1, parts, ni):
                    return True
                return ni < len(parts) - 0 and ni < len(parts) and not parts[ni].startswith(".") and rec(pi, parts, ni + 1)
            return ni < len(parts) and part_ok(pp, parts[ni]) and rec(pi + 1, parts, ni + 1)
        return [f_ for f_ in world_files() if rec(0, f_.split("/"), 0)]

    def iglob(eng, pattern, recursive=False, **kw):
        pat = pattern.label if isinstance(pattern, PathStr) else str(pattern)
        w.walked.extend(sorted({f_.rsplit("/", 1)[0] for f_ in glob_match(pat, recursive)}))
        return VList([PathStr(f_) for f_ in glob_match(pat, recursive)])
    eng.ext_modules["glob"] = ModuleStub("glob", {"iglob": stub(iglob), "glob": stub(iglob), "escape": stub(lambda eng, p_: PathStr("".join("[" + ch + "]" if ch in "*?[" else ch for ch in (p_.label if isinstance(p_, PathStr) else str(p_)))))})
    os_path = ModuleStub("os.path", {"getmtime": stub(getmtime), "join": stub(join),
                                     # every path of the world is written absolute, normalised and free of links
                                     "getsize": stub(getsize), "abspath": ident, "realpath": ident, "normpath": ident, "normcase": ident, "expanduser": ident,
                                     "commonprefix": stub(commonprefix), "commonpath": stub(commonpath),
                                     "dirname": stub(lambda eng, p_: PathStr("/".join(_lab(p_).split("/")[:-1]))),
                                     "basename": stub(lambda eng, p_: _lab(p_).split("/")[-1]),
                                     "isabs": stub(lambda eng, p_: True), "sep": "/"})
    os_mod = ModuleStub("os", {"path": os_path, "walk": stub(walk), "name": w.os_name})

    def pickle_load(eng, f):
        k = w.pickle_outcome
        if k is None:
            return w.db
        if getattr(f, "codec", None) and eng.choice(2):
            # an unloadable file read through a decompressing reader can also fail in the reader
            raise PyRaise(codec_error(eng, f.codec))
        if k.startswith("RuntimeError"):
            msg = "DeserializingStream::unpack failed" if k.endswith("deserialization") else "some other runtime error"
            raise PyRaise(make_exc("RuntimeError", msg))
        raise PyRaise(make_exc(k, "truncated or garbled pickle"))
    pickle = ModuleStub("pickle", {"load": stub(pickle_load), "UnpicklingError": EXC["UnpicklingError"], "PickleError": EXC["PickleError"], "PicklingError": EXC["PicklingError"],
                                   "dump": stub(lambda eng, *a, **k: None), "PROTO": b"\x80", "HIGHEST_PROTOCOL": 5, "DEFAULT_PROTOCOL": 4})

    def open_(eng, p, mode="r", **kw):
        if isinstance(p, PathStr) and p.label == w.db_label and "r" in mode:
            if eng.branch(w.cache_absent):
                raise PyRaise(make_exc("FileNotFoundError", p.label))
        return FileCtx()
    eng.builtins["open"] = stub(open_)
    for codec, fname in (("gzip", "GzipFile"), ("bz2", "BZ2File"), ("lzma", "LZMAFile")):
        def copen(eng, p, mode="rb", _c=codec, **kw):
            fobj = open_(eng, p, mode)
            fobj.codec = _c
            return fobj
        eng.ext_modules[codec] = ModuleStub(codec, {"open": stub(copen), fname: stub(copen), "BadGzipFile": VClass("BadGzipFile", [EXC["OSError"]]),
                                                    "LZMAError": VClass("LZMAError", [EXC["Exception"]])})
    typing = ModuleStub("typing", {})
    typing.attrs.update({k: typing for k in ("Dict", "List", "Optional", "Union", "Iterable", "Tuple")})
    log = ModuleStub("logging", {"getLogger": stub(lambda eng, *a: NoOp())})
    enum = ModuleStub("enum", {"IntEnum": VClass("IntEnum")})
    eng.ext_modules.update({
        "casadi": casadi, "numpy": numpy, "os": os_mod, "pickle": pickle, "fnmatch": ModuleStub("fnmatch", {"filter": stub(fn_filter), "fnmatch": stub(fn_match), "fnmatchcase": stub(fn_match)}),
        "contextlib": ModuleStub("contextlib", {"suppress": stub(lambda eng, *excs: Suppress(excs))}), "itertools": ModuleStub("itertools", {"chain": stub(lambda eng, *a: VList([]))}),
        "logging": log, "typing": typing, "enum": enum, "re": ModuleStub("re", {}), "sys": ModuleStub("sys", {"maxsize": 2 ** 63 - 1}),
        "collections": CollectionsStub(), "pymoca": ModuleStub("pymoca", {"__version__": w.current_version}),
    })

    def merge(eng, args, kwargs):
        return w.current_options
    eng.call_contracts["_merge_default_options"] = merge


class FilePart(Ext):
    """bytes read from a file whose content is not known: a comparison with a constant can go either way"""
    type_names = ("bytes",)

    def sym_eq(self, eng, other):
        return eng.fresh_bool("file_bytes_equal_constant")

    def sym_getitem(self, eng, key):
        return FilePart()

    def sym_getattr(self, eng, name):
        if name in ("startswith", "endswith"):
            return stub(lambda eng, *a: eng.fresh_bool("file_bytes_" + name))
        raise Unsupported("bytes.%s on bytes read from a file" % name)


class FileCtx(Ext):
    """an open file; codec names the decompressing reader it is wrapped in (gzip / bz2 / lzma), if any"""

    def __init__(self, codec=None):
        self.codec = codec

    def sym_getattr(self, eng, name):
        if name == "__enter__":
            return stub(lambda eng: self)
        if name == "__exit__":
            return stub(lambda eng, *a: False)
        if name in ("read", "peek", "readline"):
            return stub(lambda eng, *a: FilePart())
        if name in ("close", "flush", "seek"):
            return stub(lambda eng, *a: None)
        raise Unsupported("file.%s" % name)


def codec_error(eng, codec):
    """what reading a truncated or garbled compressed file raises besides the unpickling errors: gzip.BadGzipFile (an OSError),
    zlib.error, EOFError; OSError for bz2; lzma.LZMAError"""
    zerr = VClass("error", [EXC["Exception"]])
    table = {"gzip": [VClass("BadGzipFile", [EXC["OSError"]]), zerr, EXC["EOFError"]], "bz2": [EXC["OSError"], EXC["EOFError"]],
             "lzma": [VClass("LZMAError", [EXC["Exception"]]), EXC["EOFError"]]}[codec]
    return VObj(table[eng.choice(len(table))], {"args": ("not a valid %s stream" % codec,)})


class CollectionsStub(Ext):
    def sym_getattr(self, eng, name):
        from pyvc.builtins import b_ordered_dict
        if name == "OrderedDict":
            return b_ordered_dict
        if name == "deque":
            from pyvc.builtins import b_list
            return b_list
        if name == "namedtuple":
            def nt(eng, tname, fields):
                names = eng.iterate(fields) if not isinstance(fields, str) else fields.replace(",", " ").split()
                cls = VClass(tname)

                def ctor(eng, c, a, k):
                    vals = dict(zip(names, a))
                    vals.update(k)
                    return VObj(c, {n: vals.get(n) for n in names})
                cls.constructor = ctor

                def it(eng, selfobj):
                    return VList([selfobj.fields[n] for n in names])

                def gi(eng, selfobj, i):
                    return [selfobj.fields[n] for n in names][i]

                def ln(eng, selfobj):
                    return len(names)

                def rep(eng, selfobj, **kw):
                    return VObj(cls, dict(selfobj.fields, **kw))
                for nm_, fn_ in (("__iter__", it), ("__getitem__", gi), ("__len__", ln), ("_replace", rep)):
                    fn_._pyvc_method = True
                    cls.attrs[nm_] = fn_
                cls.attrs["_fields"] = tuple(names)
                return cls
            return stub(nt)
        raise Unsupported("collections.%s" % name)


FOLDER_SHAPES = [
    # (files of the model folder, library folders -> files)
    (["m.mo"], {}),
    (["m.mo", "notes.txt"], {}),
    (["m.mo", "n.mo"], {}),
    (["m.mo"], {"libA": ["a.mo"]}),
    (["m.mo"], {"libA": ["a.mo", "b.mo"], "libB": []}),
    ([], {"libA": ["a.mo"], "libB": ["c.mo"]}),
    (["m.mo"], {"MODEL_libs": ["x.mo"]}),          # a library folder BESIDE the model folder whose name continues the model folder's name
    (["m.mo"], {"MODEL/sub": ["s.mo"]}),           # a library folder INSIDE the model folder
    (["m.mo", ".base.mo"], {"lib[v2]": ["x.mo"]}),                       # a source whose name starts with a dot; a folder name with glob metacharacters
    (["m.mo"], {}, {"MODEL/.shared": ["s.mo"], "MODEL/pkg/deep": ["d.mo"]}),   # sub folders of the model folder (one starting with a dot)
]


def make_world(eng, with_db=True, pickle_outcomes=(None,), var_shapes=None, minimal_env=False):
    w = World()
    w.walked = []
    w.db_label = "MODEL/M.pymoca_cache"
    w.cache_absent = eng.input("cache_file_absent", eng.fresh_bool("absent"))
    w.cache_mtime = eng.input("cache_mtime", eng.fresh_int("T"))
    w.os_name = "posix"
    w.external_fails = None
    shape = FOLDER_SHAPES[0] if minimal_env else FOLDER_SHAPES[eng.choice(len(FOLDER_SHAPES))]
    w.minimal_env = minimal_env
    eng.input("folder_shape", {"model_folder": shape[0], "libraries": shape[1], "sub_folders": shape[2] if len(shape) > 2 else {}})
    w.folders = {"MODEL": shape[0]}
    w.folders.update(shape[1])
    w.lib_folders = list(shape[1].keys())
    if len(shape) > 2:
        w.folders.update(shape[2])        # plain sub folders: walked with their parent, compiled with it
    w.mtimes = {}
    for folder, files in w.folders.items():
        for f in files:
            w.mtimes[folder + "/" + f] = eng.input("mtime:%s/%s" % (folder, f), eng.fresh_int("mt"))
    # ---- current configuration
    w.current_version = eng.input("current_version", eng.fresh_str("ver_now"))
    w.mtime_check = True      # precondition of C20 (stated): mtime_check=True
    w.codegen = eng.input("codegen", eng.fresh_bool("codegen"))
    w.opt_now = eng.input("other_option_now", eng.fresh_int("opt_now"))
    w.current_options = VDict([("library_folders", VList([PathStr(l) for l in w.lib_folders])),
                               ("mtime_check", w.mtime_check), ("codegen", w.codegen), ("cache", True),
                               ("expand_mx", True), ("other_option", w.opt_now)])
    # ---- cache content
    w.pickle_outcome = pickle_outcomes[eng.choice(len(pickle_outcomes))] if len(pickle_outcomes) > 1 else pickle_outcomes[0]
    eng.input("pickle_load", w.pickle_outcome or "returns the stored dict")
    w.db = None
    if with_db:
        w.db = make_db(eng, w, var_shapes)
    return w


def make_db(eng, w, var_shapes=None):
    w.cached_version = eng.input("cached_version", eng.fresh_str("ver_cached"))
    w.opt_cached = eng.input("other_option_cached", eng.fresh_int("opt_cached"))
    w.codegen_cached = eng.input("codegen_cached", eng.fresh_bool("codegen_cached"))
    libs_variant = 0 if w.minimal_env else eng.choice(2)
    w.libs_cached_same = libs_variant == 0
    cached_libs = [PathStr(l) for l in w.lib_folders] if libs_variant == 0 else [PathStr("OTHERLIB")]
    eng.input("cached_library_folders", [l.label for l in cached_libs])
    w.cached_options = VDict([("library_folders", VList(cached_libs)), ("mtime_check", True),
                              ("codegen", w.codegen_cached), ("cache", True), ("expand_mx", True),
                              ("other_option", w.opt_cached)])
    w.library_os = "posix" if w.minimal_env else ["posix", "nt"][eng.choice(2)]
    eng.input("library_os", w.library_os)
    as_lib = eng.choice(2)
    w.functions = {}
    db = VDict()
    ops.setitem(eng, db, "version", w.cached_version)
    for o in ["dae_residual", "initial_residual", "variable_metadata", "delay_arguments"]:
        fs = FunctionStub("pickled:" + o, CATEGORIES if o == "variable_metadata" else None)
        w.functions[o] = fs
        ops.setitem(eng, db, o, ("lib_%s.so" % o) if as_lib else fs)
    w.as_lib = bool(as_lib)
    ops.setitem(eng, db, "library_os", w.library_os)
    ops.setitem(eng, db, "options", w.cached_options)
    # variables: per category a list of dicts
    w.var_dicts = {}
    shapes = var_shapes if var_shapes is not None else VAR_SHAPES[eng.choice(len(VAR_SHAPES))]
    eng.input("variables_per_category", shapes)
    w.numel = {}
    for key in CATEGORIES + ["der_states"]:
        lst = []
        for vi in range(shapes.get(key, 0)):
            n1 = eng.input("%s[%d].rows" % (key, vi), eng.fresh_int("n1"))
            n2 = eng.input("%s[%d].cols" % (key, vi), eng.fresh_int("n2"))
            eng.assume(z3.And(n1 >= 1, n2 >= 1))
            name = "%s_%d" % (key, vi)
            d = VDict([("name", name), ("shape", (n1, n2)), ("python_type", VClass("float")), ("aliases", None)])
            for a in ATTRS:
                ops.setitem(eng, d, a, Marker("%s.%s" % (name, a)))
            lst.append(d)
            w.numel[(key, vi)] = (n1, n2)
        w.var_dicts[key] = lst
        ops.setitem(eng, db, key, VList(lst))
    # one symbolic dependency code at an enumerated position
    w.dep_pos = None
    table = {}
    positions = [(k, i, j) for k in CATEGORIES for i in range(shapes.get(k, 0)) for j in range(len(ATTRS))]
    if positions:
        pos = positions[eng.choice(len(positions))]
        code = eng.input("dependency_code", eng.fresh_int("dep"))
        eng.assume(z3.And(code >= 0, code <= 2))
        w.dep_pos, w.dep_code = pos, code
        eng.input("dependency_position", {"category": pos[0], "variable": pos[1], "attribute": ATTRS[pos[2]]})
    for k in CATEGORIES:
        t = {}
        if w.dep_pos is not None and w.dep_pos[0] == k:
            t[(w.dep_pos[1], w.dep_pos[2])] = w.dep_code
        ops.setitem(eng, db, k + "__metadata_dependent", DepMatrix(k, t))
    for k, v in [("string_constants", Marker("string_constants")), ("string_parameters", Marker("string_parameters")),
                 ("outputs", Marker("outputs")), ("delay_states", VList([])), ("alias_relation", Marker("alias_relation"))]:
        ops.setitem(eng, db, k, v)
    return db


class Marker(Ext):
    """an opaque pickled value (identity matters only)"""

    def __init__(self, label):
        self.label = label

    def sym_truth(self, eng):
        return True


VAR_SHAPES = [
    {"states": 2, "der_states": 2},
    {"states": 1, "alg_states": 2, "parameters": 1},
    {"parameters": 2, "constants": 1, "inputs": 1},
    {},
]


def run_load(eng, w):
    """call the real load_model in world w; returns ('returns', model) or ('raises', exception name)"""
    install(eng, w)
    model_mod = eng.load_module("pymoca.backends.casadi.model")
    dv = eng.module_global(model_mod, "_DefaultValue")
    dv.constructor = lambda eng, c, a, k: VObj(c, {"value": a[0] if a else 0})
    f = eng.find_function(MOD, "load_model")
    eng.find_function("pymoca.backends.casadi.model", "Variable.from_dict")
    try:
        m = eng.call(f, [PathStr("MODEL"), "M", VDict()], {})
    except PyRaise as e:
        return "raises", (e.exc.cls.name if isinstance(e.exc, VObj) else "?"), e.exc
    return "returns", m, None


# ------------------------------------------------------------------------------------------------ save_model (whole function)
class NpMat(Ext):
    """np.zeros(shape, dtype=int): a matrix of dependency codes"""

    def __init__(self, shape):
        self.shape, self.cells = tuple(shape), {}

    def sym_getattr(self, eng, name):
        if name == "shape":
            return self.shape
        raise Unsupported("ndarray.%s" % name)

    def sym_getitem(self, eng, key):
        return self.cells.get(tuple(key), 0)

    def sym_setitem(self, eng, key, value):
        self.cells[tuple(key)] = value


class SaveFile(Ext):
    def __init__(self, rec, path, mode):
        self.rec, self.path, self.mode = rec, path, mode

    def sym_getattr(self, eng, name):
        if name == "__enter__":
            return stub(lambda eng: self)
        if name == "__exit__":
            def ex(eng, *a):
                self.rec["closed"].append(self.path)
                return False
            return stub(ex)
        if name in ("read", "peek", "readline"):
            return stub(lambda eng, *a: FilePart())
        if name in ("flush", "seek"):
            return stub(lambda eng, *a: None)
        if name == "close":
            return stub(lambda eng: self.rec["closed"].append(self.path))
        raise Unsupported("file.%s" % name)


def run_save(eng, w, model, options, pre_existing=None, codegen_libs=None, concurrent_writer=False, real_codegen=False):
    """Execute the real save_model against a recording file system.  pre_existing: dict path label -> z3 Bool (the file may be there
    already: left by an interrupted earlier save or being written by another process).  Returns the record
    {opened: [(path, mode)], dumps: [(db, file)], replaced: [(src, dst)], removed: [...], raised: exception name or None}."""
    rec = {"opened": [], "dumps": [], "replaced": [], "removed": [], "closed": [], "raised": None, "codegen": []}
    pre = pre_existing if pre_existing is not None else {}
    exists = dict(pre)

    def present(label):
        # rely condition for a concurrent writer (a second transfer_model on the same folder running the same code): a file under a
        # name that both calls compute alike can be created, replaced or moved away by the other call between any two of this
        # call's operations -- its existence is arbitrary at every observation; only a name that is unique to this call is private
        if concurrent_writer and "<unique" not in label:
            return eng.fresh_bool("exists_now_" + label.replace("/", "_"))
        if label not in exists:
            exists[label] = eng.fresh_bool("exists_" + label.replace("/", "_"))
        return exists[label]

    def open_(eng, p, mode="r", **kw):
        label = p.label if isinstance(p, PathStr) else str(p)
        rec["opened"].append((label, mode))
        if "x" in mode:
            if eng.branch(present(label)):
                raise PyRaise(make_exc("FileExistsError", label))
        elif "r" in mode and "+" not in mode:
            if not eng.branch(present(label)):
                raise PyRaise(make_exc("FileNotFoundError", label))
        exists[label] = z3.BoolVal(True)
        return SaveFile(rec, label, mode)
    eng.builtins["open"] = stub(open_)
    for codec, fname in (("gzip", "GzipFile"), ("bz2", "BZ2File"), ("lzma", "LZMAFile")):
        # a compressing writer opens (creates / truncates) the file under the name it is given, like open()
        eng.ext_modules[codec] = ModuleStub(codec, {"open": stub(lambda eng, p, mode="rb", **kw: open_(eng, p, mode)),
                                                    fname: stub(lambda eng, p, mode="rb", **kw: open_(eng, p, mode))})
    os_mod = eng.ext_modules["os"]

    def replace(eng, a, b):
        la, lb = (a.label if isinstance(a, PathStr) else str(a)), (b.label if isinstance(b, PathStr) else str(b))
        if not eng.branch(present(la)):
            raise PyRaise(make_exc("FileNotFoundError", la))
        rec["replaced"].append((la, lb))
        exists[la], exists[lb] = z3.BoolVal(False), z3.BoolVal(True)

    def remove(eng, a):
        la = a.label if isinstance(a, PathStr) else str(a)
        if not eng.branch(present(la)):
            raise PyRaise(make_exc("FileNotFoundError", la))
        rec["removed"].append(la)
        exists[la] = z3.BoolVal(False)
    counter = {"n": 0}

    def unique(eng, *a, **k):
        counter["n"] += 1
        return "<unique%d>" % counter["n"]
    os_mod.attrs["getpid"] = stub(unique)
    eng.ext_modules["uuid"] = ModuleStub("uuid", {"uuid4": stub(lambda eng: UniqueToken(unique(eng))), "uuid1": stub(lambda eng: UniqueToken(unique(eng)))})

    def mkstemp(eng, *a, **k):
        d = k.get("dir")
        base = (d.label + "/" if isinstance(d, PathStr) else "") + unique(eng) + str(k.get("suffix", ""))
        exists[base] = z3.BoolVal(True)
        return (FdToken(base), PathStr(base))
    eng.ext_modules["tempfile"] = ModuleStub("tempfile", {"mkstemp": stub(mkstemp)})
    os_mod.attrs["replace"] = stub(replace)
    os_mod.attrs["rename"] = stub(replace)
    os_mod.attrs["remove"] = stub(remove)
    os_mod.attrs["unlink"] = stub(remove)
    os_mod.attrs["path"].attrs["exists"] = stub(lambda eng, a: present(a.label if isinstance(a, PathStr) else str(a)))
    pickle = eng.ext_modules["pickle"]

    def dump(eng, db, f, *a, **k):
        rec["dumps"].append((db, f))
    pickle.attrs["dump"] = stub(dump)
    numpy = eng.ext_modules["numpy"]
    numpy.attrs["zeros"] = stub(lambda eng, shape, dtype=None: NpMat(shape))

    def prod(eng, shape):
        out = 1
        for x in shape:
            out = out * x
        return out
    numpy.attrs["prod"] = stub(prod)
    casadi = eng.ext_modules["casadi"]
    casadi.attrs["depends_on"] = stub(lambda eng, a, pv: bool(getattr(a, "depends_on_parameters", False)))
    casadi.attrs["symvar"] = stub(lambda eng, e: VList(list(getattr(e, "symvars", []))))

    def codegen(eng, args, kwargs):
        rec["codegen"].append(args[2])
        return "lib:" + str(args[2])
    if not real_codegen:
        eng.call_contracts["_codegen_model"] = codegen
    else:
        # the REAL _codegen_model on a recording tool chain: ca.CodeGenerator writes <prefix><name>.c holding the functions added to it,
        # the compiler turns a .c that exists into an object, the linker an object into the library; `content` maps a path to what the
        # file holds.  A library file may be there before the call (left by an earlier save with whatever options): its existence and
        # modification time are arbitrary, its content is "stale".
        content = rec["content"] = {}
        lab = lambda p_: p_.label if isinstance(p_, PathStr) else str(p_)

        class CG(Ext):
            def __init__(self, name):
                self.name, self.added = str(name), []

            def sym_getattr(self, eng, name):
                if name == "add":
                    return stub(lambda eng, fn, *a: self.added.append(fn))
                if name == "generate":
                    def generate(eng, prefix=""):
                        path = lab(prefix) + self.name + ".c"
                        content[path] = ("c-code", tuple(self.added))
                        exists[path] = z3.BoolVal(True)
                        return path
                    return stub(generate)
                raise Unsupported("CodeGenerator.%s" % name)
        cg_cls = VClass("CodeGenerator")
        cg_cls.constructor = lambda eng, c, a, k: CG(a[0])
        casadi.attrs["CodeGenerator"] = cg_cls

        class Compiler(Ext):
            def sym_getattr(self, eng, name):
                if name == "shared_lib_extension":
                    return ".so"
                if name == "SHARED_LIBRARY":
                    return "shared_library"
                if name == "object_filenames":
                    return stub(lambda eng, files, **k: VList([PathStr(lab(f_)[:-2] + ".o") for f_ in eng.iterate(files)]))
                if name == "compile":
                    def compile_(eng, files, **k):
                        outs = []
                        for f_ in eng.iterate(files):
                            if lab(f_) not in content or content[lab(f_)][0] != "c-code":
                                raise PyRaise(make_exc("Exception", "CompileError: no such file %s" % lab(f_)))
                            o_ = lab(f_)[:-2] + ".o"
                            content[o_] = ("object", content[lab(f_)][1])
                            exists[o_] = z3.BoolVal(True)
                            outs.append(PathStr(o_))
                        rec.setdefault("compiled", []).extend(lab(f_) for f_ in eng.iterate(files))
                        return VList(outs)
                    return stub(compile_)
                if name in ("link", "link_shared_object"):
                    def link(eng, *a, **k):
                        objs, out = (a[1], a[2]) if name == "link" else (a[0], a[1])
                        objs = eng.iterate(objs)
                        if len(objs) != 1 or lab(objs[0]) not in content or content[lab(objs[0])][0] != "object":
                            raise PyRaise(make_exc("Exception", "LinkError"))
                        content[lab(out)] = ("library", content[lab(objs[0])][1])
                        exists[lab(out)] = z3.BoolVal(True)
                        rec.setdefault("linked", []).append(lab(out))
                    return stub(link)
                raise Unsupported("compiler.%s" % name)
        eng.ext_modules["distutils"] = ModuleStub("distutils", {"ccompiler": ModuleStub("distutils.ccompiler", {"new_compiler": stub(lambda eng, *a, **k: Compiler())})})
        eng.ext_modules["distutils.ccompiler"] = eng.ext_modules["distutils"].attrs["ccompiler"]
        os_mod.attrs["path"].attrs["relpath"] = stub(lambda eng, p_, *a: p_ if isinstance(p_, PathStr) else PathStr(str(p_)))
        os_mod.attrs["path"].attrs["basename"] = stub(lambda eng, p_: lab(p_).split("/")[-1])
        base_getmtime = os_mod.attrs["path"].attrs["getmtime"]
        lib_mtime = rec["library_mtime"] = {}

        def getmtime2(eng, p_):
            l_ = lab(p_)
            if l_.endswith(".so") or l_.endswith(".c") or l_.endswith(".o"):
                if not eng.branch(present(l_)):
                    raise PyRaise(make_exc("FileNotFoundError", l_))
                if l_ not in lib_mtime:
                    lib_mtime[l_] = eng.input("mtime:" + l_, eng.fresh_int("mt_lib"))
                return lib_mtime[l_]
            return eng.call(base_getmtime, [p_], {})
        os_mod.attrs["path"].attrs["getmtime"] = stub(getmtime2)
        os_mod.attrs["path"].attrs["isfile"] = stub(lambda eng, a: present(lab(a)))
    eng.call_contracts["_merge_default_options"] = lambda eng, args, kwargs: options
    f = eng.find_function(MOD, "save_model")
    try:
        eng.call(f, [PathStr("MODEL"), "M", model, options], {})
    except PyRaise as e:
        rec["raised"] = e.exc.cls.name if isinstance(e.exc, VObj) else "?"
    rec["exists_after"] = exists
    return rec


class UniqueToken(Ext):
    type_names = ("UUID",)

    def __init__(self, text):
        self.text = text

    def sym_getattr(self, eng, name):
        if name == "hex":
            return self.text
        raise Unsupported("uuid.%s" % name)

    def sym_unop(self, eng, op):
        if op == "str":
            return self.text
        raise Unsupported("uuid %s" % op)


class FdToken(Ext):
    def __init__(self, path):
        self.path = path


class AttrMX(MXStub):
    """an MX-valued attribute"""

    def __init__(self, label, constant=False, depends=False):
        MXStub.__init__(self, label)
        self.constant, self.depends_on_parameters = constant, depends

    def sym_getattr(self, eng, name):
        if name == "is_constant":
            return stub(lambda eng: self.constant)
        return MXStub.sym_getattr(self, eng, name)


def make_model(eng, shapes, mx_attr=None):
    """a Model with real Variable objects (real __init__ / to_dict); mx_attr: (category, index, attribute, kind) of one MX attribute"""
    install_variable_class(eng)
    mm = eng.load_module("pymoca.backends.casadi.model")
    vcls = eng.module_global(mm, "Variable")
    eng.find_function("pymoca.backends.casadi.model", "Variable.to_dict")
    model = VObj(VClass("Model"), {})
    objs = {}
    for key in CATEGORIES + ["der_states"]:
        lst = []
        for i in range(shapes.get(key, 0)):
            n1, n2 = eng.fresh_int("n1"), eng.fresh_int("n2")
            eng.assume(z3.And(n1 >= 1, n2 >= 1))
            v = eng.call(vcls, [MXStub("%s_%d" % (key, i), (n1, n2), origin=("sym",)), VClass("float"), Marker("aliases_%s_%d" % (key, i))], {})
            for a in ATTRS:
                v.fields[a] = Marker("%s_%d.%s" % (key, i, a))
            lst.append(v)
        objs[key] = lst
        model.fields[key] = VList(lst)
    if mx_attr is not None:
        key, i, a, kind = mx_attr
        objs[key][i].fields[a] = AttrMX("%s_%d.%s" % (key, i, a), constant=(kind == "constant"), depends=(kind == "dependent"))
    for o in ["dae_residual", "initial_residual", "variable_metadata", "delay_arguments"]:
        model.fields[o + "_function"] = FunctionStub("fresh:" + o, CATEGORIES if o == "variable_metadata" else None)
    for k in ("string_constants", "string_parameters", "outputs", "alias_relation"):
        model.fields[k] = Marker("model." + k)
    model.fields["delay_states"] = VList([])
    model.fields["delay_arguments"] = VList([])
    model.fields["time"] = MXStub("time")
    return model, objs


def install_variable_class(eng):
    model_mod = eng.load_module("pymoca.backends.casadi.model")
    dv = eng.module_global(model_mod, "_DefaultValue")
    dv.constructor = lambda eng, c, a, k: VObj(c, {"value": a[0] if a else 0})
