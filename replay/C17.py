"""C17 replay / bounded stand-in on the REAL AliasRelation (runs under /venv/bin/python).

Explores operation histories (add / remove / copy) over a small universe of signed names up to
state equivalence and compares every observable (aliases, canonical_signed, iteration,
canonical_variables, independence of copies) with a reference signed union-find.
stdin: JSON payload {mode: replay|bounded, tier, seed, obligation, model}; last stdout line: JSON."""
import json
import sys
from collections import deque

from pymoca.backends.casadi.alias_relation import AliasRelation


def tog(x):
    return x[1:] if x.startswith("-") else "-" + x


class Ref:
    """reference: signed partition as dict name -> frozenset(class)"""

    def __init__(self, cls=None):
        self.cls = dict(cls or {})

    def klass(self, x):
        return self.cls.get(x, frozenset([x]))

    def add(self, a, b):
        n = Ref(self.cls)
        m = n.klass(a) | n.klass(b)
        im = frozenset(tog(v) for v in m)
        for v in m:
            n.cls[v] = m
        for v in im:
            n.cls[v] = im
        return n

    def remove_class_of(self, members):
        n = Ref(self.cls)
        for v in members:
            n.cls.pop(v, None)
        return n

    def key(self):
        return tuple(sorted((k, tuple(sorted(v))) for k, v in self.cls.items()))


def impl_key(ar):
    ids = {}
    out = []
    for k in sorted(ar._aliases):
        s = ar._aliases[k]
        ids.setdefault(id(s), len(ids))
        out.append((k, tuple(sorted(s)), ids[id(s)]))
    return (tuple(out), tuple(sorted(ar._canonical_variables)),
            tuple(sorted((k, v) for k, v in ar._canonical_variables_map.items())))


def check(ar, ref, universe, hist):
    """compare observables; returns None or a description of the discrepancy"""
    for x in universe:
        got = set(ar.aliases(x))
        if got != set(ref.klass(x)):
            return {"observed": "aliases(%r) = %s" % (x, sorted(got)), "expected": sorted(ref.klass(x))}
    canon = {}
    for x in universe:
        c, s = ar.canonical_signed(x)
        if s not in (1, -1) or c.startswith("-"):
            return {"observed": "canonical_signed(%r) = %r" % (x, (c, s)), "expected": "unsigned name, sign +-1"}
        member = c if s == 1 else tog(c)
        if member not in ref.klass(x):
            return {"observed": "canonical_signed(%r) = %r" % (x, (c, s)), "expected": "s*c in class %s" % sorted(ref.klass(x))}
        canon[x] = (c, s)
    for x in universe:
        for y in ref.klass(x):
            if y in canon and canon[y] != canon[x]:
                return {"observed": "canonical_signed differs inside one class: %r vs %r" % ((x, canon[x]), (y, canon[y])),
                        "expected": "class-constant canonical"}
        cx, sx = canon[x]
        ct, st_ = canon[tog(x)] if tog(x) in canon else ar.canonical_signed(tog(x))
        if (ct, st_) != (cx, -sx):
            return {"observed": "canonical_signed(%r)=%r but of negation %r" % (x, (cx, sx), (ct, st_)), "expected": "same name, opposite sign"}
    for x in universe:
        for y in universe:
            if canon[x][0] == canon[y][0] and y not in ref.klass(x) and tog(y) not in ref.klass(x):
                return {"observed": "distinct classes share canonical %r (%r, %r)" % (canon[x][0], x, y), "expected": "distinct canonicals"}
    entries = list(ar)
    names = [c for c, _ in entries]
    nontrivial_pairs = set()
    for x in universe:
        if len(ref.klass(x)) > 1:
            nontrivial_pairs.add(frozenset([ref.klass(x), frozenset(tog(v) for v in ref.klass(x))]))
    if len(names) != len(set(names)) or len(entries) != len(nontrivial_pairs):
        return {"observed": "iteration yields %s" % sorted((c, sorted(a)) for c, a in entries),
                "expected": "one entry per non-trivial class pair (%d)" % len(nontrivial_pairs)}
    for c, al in entries:
        if set(al) != set(ref.klass(c)) - {c} or len(ref.klass(c)) < 2:
            return {"observed": "iteration entry (%r, %s)" % (c, sorted(al)), "expected": sorted(set(ref.klass(c)) - {c})}
    if set(ar.canonical_variables) != set(names):
        return {"observed": "canonical_variables %s vs iteration %s" % (sorted(ar.canonical_variables), sorted(names)), "expected": "equal"}
    return None


def ops_for(ref, universe):
    for a in universe:
        for b in universe:
            if b in ref.klass(tog(a)) or a == tog(b):
                continue  # would relate a variable to its own negation: outside the property
            yield ("add", a, b)
    for a in universe:
        yield ("remove", a)
    yield ("copy",)


def apply_op(ar, ref, op):
    """returns (new ar, new ref, extra) ; for copy also the untouched source for the independence check"""
    if op[0] == "add":
        ar2 = ar.copy() if False else ar
        ar2.add(op[1], op[2])
        return ar2, ref.add(op[1], op[2]), None
    if op[0] == "remove":
        was = op[1] in ar.canonical_variables
        members = set(ref.klass(op[1])) | set(ref.klass(tog(op[1])))
        ar.remove(op[1])
        return ar, (ref.remove_class_of(members) if was else ref), None
    cp = ar.copy()
    return cp, ref, ar


def rebuild(hist):
    """replay a history from the empty relation; a ('copy',) step continues on the copy and keeps
    the source for an independence check at the end"""
    ar, ref = AliasRelation(), Ref()
    sources = []
    for op in hist:
        ar, ref, src = apply_op(ar, ref, op)
        if src is not None:
            sources.append((src, ref, impl_key(src)))
    return ar, ref, sources


def explore(universe, max_depth, max_states):
    seen = set()
    q = deque([()])
    cases = 0
    nontrivial = set()
    failures = []
    while q:
        hist = q.popleft()
        try:
            ar, ref, sources = rebuild(hist)
            bad = check(ar, ref, universe, hist) or check(ar, ref, universe, hist)  # twice: observers must not mutate
            if bad is None:
                for src, sref, skey in sources:
                    if impl_key(src) != skey:
                        bad = {"observed": "source of a copy changed after operations on the copy", "expected": "independent evolution"}
                        break
                    b2 = check(src, sref, universe, hist)
                    if b2 is not None:
                        bad = dict(b2, observed="(source after copy) " + str(b2["observed"]))
                        break
        except Exception as e:  # noqa
            bad = {"observed": "exception %s: %s" % (type(e).__name__, e), "expected": "no exception"}
        cases += 1
        if bad is not None:
            failures.append({"class": "history", "input": [list(o) for o in hist], **bad})
            if len(failures) >= 3:
                break
            continue
        key = (impl_key(ar), ref.key(), tuple(k for _, _, k in sources[-1:]))
        if key in seen:
            continue
        seen.add(key)
        if ref.cls:
            nontrivial.add(key)
        if len(hist) >= max_depth or len(seen) >= max_states:
            continue
        for op in ops_for(ref, universe):
            if op[0] == "copy" and sum(1 for o in hist if o[0] == "copy") >= 2:
                continue
            q.append(hist + (op,))
    return cases, len(seen), len(nontrivial), failures


def main():
    payload = json.load(sys.stdin)
    tier = payload.get("tier", "quick")
    if payload.get("input"):
        hist = tuple(tuple(o) for o in payload["input"])
        names = sorted({x.lstrip("-") for o in hist for x in o[1:]}) or ["a"]
        universe = names + ["-" + n for n in names]
        try:
            ar, ref, sources = rebuild(hist)
            bad = check(ar, ref, universe, hist)
        except Exception as e:  # noqa
            bad = {"observed": "exception %s: %s" % (type(e).__name__, e), "expected": "no exception"}
        print(json.dumps({"reproduces": bad is not None, "input": [list(o) for o in hist], **(bad or {})}))
        return
    names = ["a", "b", "c"]
    universe = names + ["-" + n for n in names]
    depth, cap = (5, 3000) if tier == "quick" else (7, 40000)
    if payload.get("mode") == "replay":
        depth, cap = 5, 3000
    cases, states, nontrivial, failures = explore(universe, depth, cap)
    rule = ("BFS over histories of add/remove/copy on the real AliasRelation, universe {a,b,c} with both signs, "
            "depth <= %d, pruned by (implementation state incl. set-object sharing, reference partition); "
            "non-trivial = states with at least one alias class" % depth)
    if payload.get("mode") == "bounded":
        print(json.dumps({"performed": True, "cases": cases, "distinct_nontrivial": nontrivial, "states": states,
                          "rule": rule, "bound": "depth %d, %d states" % (depth, cap), "failures": failures}))
    else:
        f = failures[0] if failures else None
        print(json.dumps({"performed": True, "reproduces": f is not None, "input": f and f["input"],
                          "observed": f and f["observed"], "expected": f and f["expected"], "input_class": "history",
                          "note": "failing history found by bounded search on the real class (%d histories, %d states)" % (cases, states)
                          if f else "no failing history within depth %d (%d histories, %d states)" % (depth, cases, states)}))


if __name__ == "__main__":
    main()
