"""C25 -- the ModelicaXML backend mirrors the flat model.

Functions under contract (real source, whole functions): every exit* callback of
pymoca.backends.xml.generator.XmlGenerator.  Each is verified as one step of a structural induction:
given that xml[child] is the element of every child (induction hypothesis: opaque elements), the
element stored for the node has the tag / attributes of the node kind and operator and has the
children's elements IN ORDER, ONE EACH.  The walker (post-order, every node once) is assumed.
lxml's E-factory is modelled as the free constructor E(tag, *children, **attrs).
"""
import z3

from pyvc import ops
from pyvc.values import Ext, PyRaise, Unsupported, VBound, VClass, VDict, VList, VObj, stub

from .api_common import ModuleStub
from .ast_common import AstFactory, base_modules

MOD = "pymoca.backends.xml.generator"


class Elem(Ext):
    """an lxml element built by E(tag, *children, **attrs)"""

    def __init__(self, tag, children, attrs):
        self.tag, self.children, self.attrs = tag, [], dict(attrs)
        self.attrib = AttribView(self)
        self.parent = None
        # lxml: an element has ONE parent -- appending an element that already sits in another element MOVES it there
        for c in children:
            if isinstance(c, Elem):
                if c.parent is not None:
                    c.parent.children = [x for x in c.parent.children if x is not c]
                c.parent = self
            self.children.append(c)

    def sym_getattr(self, eng, name):
        if name == "attrib":
            return self.attrib
        if name == "get":
            return stub(lambda eng, k, d=None: self.attrs.get(k, d))
        if name == "set":
            def set_(eng, k, v):
                self.attrs[k] = v
            return stub(set_)
        if name == "tag":
            return self.tag
        if name == "append":
            def append(eng, c):
                if isinstance(c, Elem):
                    if c.parent is not None:
                        c.parent.children = [x for x in c.parent.children if x is not c]
                    c.parent = self
                self.children.append(c)
            return stub(append)
        if name == "getparent":
            return stub(lambda eng: self.parent)
        raise Unsupported("element.%s" % name)

    def sym_iter(self, eng):
        return list(self.children)

    def sym_len(self, eng):
        return len(self.children)


class AttribView(Ext):
    def __init__(self, el):
        self.el = el

    def sym_setitem(self, eng, k, v):
        self.el.attrs[k] = v

    def sym_getitem(self, eng, k):
        return self.el.attrs[k]


class EFactory(Ext):
    def sym_call(self, eng, args, kwargs):
        return Elem(args[0], args[1:], kwargs)


def setup(eng):
    base_modules(eng)
    E = EFactory()
    eng.ext_modules["lxml"] = ModuleStub("lxml", {"etree": ModuleStub("etree", {}), "objectify": ModuleStub("objectify", {"E": E})})
    eng.ext_modules["pymoca.tree"] = ModuleStub("pymoca.tree", {"TreeListener": VClass("TreeListener"), "TreeWalker": VClass("TreeWalker"),
                                                                "flatten": None})
    eng.builtins["dir"] = stub(lambda eng, *a: VList([]))
    eng.builtins["__builtins__"] = None
    gm = eng.load_module(MOD)
    gcls = eng.module_global(gm, "XmlGenerator")
    # the generator as its REAL constructor makes it (so that every field __init__ sets exists)
    try:
        g = eng.call(gcls, [], {})
    except (Unsupported, PyRaise):
        g = VObj(gcls, {})
    g.fields["xml"] = VDict()
    return g, AstFactory(eng)


def marker(label):
    return Elem("child:" + label, [], {})


def children_ok(el, want):
    return len(el.children) == len(want) and all(a is b for a, b in zip(el.children, want))


LITERALS = [2.5, 0, 1, -3, 1e-08, 2.5e-07, 1.25e-06, 1e+20, 123456789.125, True]


def h_expression(eng):
    g, A = setup(eng)
    n = 1 + eng.choice(3)
    op_is_ref = bool(eng.choice(2))
    op = eng.input("operator", eng.fresh_str("op"))
    # an operand is a literal or itself an expression (a negation, a difference, a sum): the element must mirror THIS node --
    # its own operator, the elements of its own operands -- whatever the operands are
    shapes = [eng.choice(4) for _ in range(n)] if n <= 2 else [0] * n
    eng.input("operand_kinds", [["literal", "negation", "difference", "sum"][k_] for k_ in shapes])
    operands = []
    for i, k_ in enumerate(shapes):
        if k_ == 0:
            o = A.prim(i)
        else:
            inner = [A.prim(10 * (i + 1) + j) for j in range(1 if k_ == 1 else 2)]
            for j, q in enumerate(inner):
                ops.setitem(eng, g.fields["xml"], q, marker("op%d.inner%d" % (i, j)))
            o = A.expr("+" if k_ == 3 else "-", *inner)
        operands.append(o)
    kids = [marker("op%d" % i) for i in range(n)]
    for o, k in zip(operands, kids):
        ops.setitem(eng, g.fields["xml"], o, k)
    # the expression may be met inside a tree whose top level also holds the functions flatten() pulled up beside the model, stored
    # under their full names: a call of Lib.f is the operator "Lib.f", whatever the class object of Lib.f calls itself
    in_tree = bool(eng.choice(2))
    eng.input("met_inside_a_tree_with_pulled_up_functions", in_tree)
    if in_tree:
        fcls = A.new("Class", name="f", type="function")
        mcls = A.new("Class", name="M", type="model")
        top = A.new("Tree")
        ops.setitem(eng, top.fields["classes"], "Lib.f", fcls)
        ops.setitem(eng, top.fields["classes"], "M", mcls)
        try:
            enter = eng.getattr(g, "enterTree", None, None)
        except PyRaise:
            enter = None
        if enter is not None:
            eng.call(enter, [top], {})
        if eng.choice(2):
            op = "Lib.f"
            eng.input("operator_is_the_pulled_up_function", True)
    tree = A.expr(A.ref("f") if op_is_ref else op, *operands)
    if op_is_ref:
        tree.fields["operator"].fields["name"] = op
    eng.call(VBound(eng.find_function(MOD, "XmlGenerator.exitExpression"), g), [tree], {})
    eng.cover("xml.expression")
    el = ops.getitem(eng, g.fields["xml"], tree)
    eng.prove("expr.operands_in_order_one_each", z3.BoolVal(isinstance(el, Elem) and children_ok(el, kids)))
    # unary -> <operator name=op>, n-ary -> <apply builtin=op>
    if n == 1:
        eng.prove("expr.unary_is_operator_element", z3.And(z3.BoolVal(el.tag == "operator" and set(el.attrs) == {"name"}), ops.to_z3(el.attrs.get("name", "")) == op))
    else:
        eng.prove("expr.nary_is_apply_element", z3.And(z3.BoolVal(el.tag == "apply" and set(el.attrs) == {"builtin"}), ops.to_z3(el.attrs.get("builtin", "")) == op))


def h_leaves(eng):
    g, A = setup(eng)
    which = eng.choice(2)
    if which == 0:
        v = LITERALS[eng.choice(len(LITERALS))]
        eng.input("literal", v)
        tree = A.prim(v)
        eng.call(VBound(eng.find_function(MOD, "XmlGenerator.exitPrimary"), g), [tree], {})
        eng.cover("xml.primary")
        el = ops.getitem(eng, g.fields["xml"], tree)
        txt = el.attrs.get("value")
        ok = el.tag == "real" and not el.children and set(el.attrs) == {"value"} and isinstance(txt, str)
        eng.prove("literal.is_real_element", z3.BoolVal(bool(ok)))
        # (P) the literal's exact value is carried (parsing the text back gives the value)
        back = None
        try:
            back = {"True": True, "False": False}.get(txt, None)
            if back is None:
                back = float(txt)
        except (TypeError, ValueError):
            pass
        eng.prove("literal.value_is_exact", z3.BoolVal(back is not None and float(back) == float(v)), text=txt)
    else:
        name = eng.input("name", eng.fresh_str("name"))
        tree = A.ref("x")
        tree.fields["name"] = name
        eng.call(VBound(eng.find_function(MOD, "XmlGenerator.exitComponentRef"), g), [tree], {})
        eng.cover("xml.ref")
        el = ops.getitem(eng, g.fields["xml"], tree)
        eng.prove("ref.is_local_with_name", z3.And(z3.BoolVal(el.tag == "local" and not el.children and set(el.attrs) == {"name"}),
                                                   ops.to_z3(el.attrs.get("name", "")) == name))


def h_equation_and_containers(eng):
    g, A = setup(eng)
    which = ["equation", "function", "class", "tree", "when", "classmod"][eng.choice(6)]
    eng.input("node", which)
    xml = g.fields["xml"]

    def kid(node, label):
        m = marker(label)
        ops.setitem(eng, xml, node, m)
        return m
    if which == "equation":
        l, r = A.ref("a"), A.prim(1)
        kl, kr = kid(l, "left"), kid(r, "right")
        tree = A.new("Equation", left=l, right=r)
        eng.call(VBound(eng.find_function(MOD, "XmlGenerator.exitEquation"), g), [tree], {})
        el = ops.getitem(eng, xml, tree)
        eng.prove("equation.is_equal_of_left_then_right", z3.BoolVal(el.tag == "equal" and children_ok(el, [kl, kr]) and not el.attrs))
    elif which == "function":
        n = eng.choice(4)
        args = [A.prim(i) for i in range(n)]
        ks = [kid(a, "arg%d" % i) for i, a in enumerate(args)]
        name = eng.input("function_name", eng.fresh_str("fn"))
        tree = VObj(VClass("Function"), {"name": name, "arguments": VList(args)})
        eng.call(VBound(eng.find_function(MOD, "XmlGenerator.exitFunction"), g), [tree], {})
        el = ops.getitem(eng, xml, tree)
        eng.prove("function.is_apply_of_arguments_in_order", z3.And(z3.BoolVal(el.tag == "apply" and children_ok(el, ks) and set(el.attrs) == {"builtin"}),
                                                                    ops.to_z3(el.attrs.get("builtin", "")) == name))
    elif which == "class":
        wide = getattr(eng, "tier", "quick") == "thorough"
        ns, ne = eng.choice(7 if wide else 4), eng.choice(13 if wide else 7)
        from contracts.C10 import PrefixList

        class NoPrefix(PrefixList):
            def __init__(self):
                self.label, self.has, self.appended = "sym", {k: False for k in VARIABILITY}, []
        syms = []
        for i in range(ns):
            sy = VObj(VClass("Symbol"), {"name": "s%d" % i, "prefixes": NoPrefix(), "type": VObj(VClass("ComponentRef"), {"name": "Real"})})
            for f_ in ("start", "value", "fixed"):
                sy.fields[f_] = A.prim(None)
            syms.append(sy)
            # the component element of a variable is whatever the real exitSymbol makes of it (wherever it keeps it)
            eng.call(VBound(eng.find_function(MOD, "XmlGenerator.exitSymbol"), g), [sy], {})
        eqs = [A.new("Equation", left=A.ref("e%d" % i), right=A.prim(i)) for i in range(ne)]
        ke = [kid(e, "eq%d" % i) for i, e in enumerate(eqs)]
        d = VDict([(s.fields["name"], s) for s in syms])
        tree = VObj(VClass("Class"), {"name": "M", "symbols": d, "equations": VList(eqs)})
        eng.call(VBound(eng.find_function(MOD, "XmlGenerator.exitClass"), g), [tree], {})
        el = ops.getitem(eng, xml, tree)
        ok = el.tag == "classDefinition" and el.attrs.get("name") == "M" and len(el.children) == 1
        c = el.children[0] if ok else None
        ok = ok and c.tag == "class" and len(c.children) == ns + 1 and \
            [(k.tag, k.attrs.get("name")) for k in c.children[:ns] if isinstance(k, Elem)] == [("component", "s%d" % i) for i in range(ns)]
        eq = c.children[-1] if ok else None
        ok = ok and eq.tag == "equation" and children_ok(eq, ke)
        # (P) one component per flat variable, one equation element per flat equation, in order
        eng.prove("class.one_component_per_symbol_one_equation_per_equation", z3.BoolVal(bool(ok)))
    elif which == "tree":
        nc = 1 + eng.choice(2)
        cs = [VObj(VClass("Class"), {"name": "C%d" % i}) for i in range(nc)]
        ks = [kid(c, "class%d" % i) for i, c in enumerate(cs)]
        tree = VObj(VClass("Tree"), {"classes": VDict([(c.fields["name"], c) for c in cs])})
        eng.call(VBound(eng.find_function(MOD, "XmlGenerator.exitTree"), g), [tree], {})
        el = ops.getitem(eng, xml, tree)
        ok = el.tag == "modelica" and len(el.children) == 1 and el.children[0].tag == "declarations" and children_ok(el.children[0], ks)
        eng.prove("tree.declarations_hold_every_class", z3.BoolVal(bool(ok)))
    elif which == "when":
        cond = A.ref("c")
        body = [A.new("Equation", left=A.ref("b%d" % i), right=A.prim(i)) for i in range(1 + eng.choice(2))]
        kc = kid(cond, "cond")
        kb = [kid(b, "b%d" % i) for i, b in enumerate(body)]
        tree = VObj(VClass("WhenEquation"), {"conditions": VList([cond]), "blocks": VList([VList(body)])})
        eng.call(VBound(eng.find_function(MOD, "XmlGenerator.exitWhenEquation"), g), [tree], {})
        el = ops.getitem(eng, xml, tree)
        ok = el.tag == "when" and len(el.children) == 2 and el.children[0].tag == "cond" and children_ok(el.children[0], [kc]) and \
            el.children[1].tag == "then" and children_ok(el.children[1], kb)
        eng.prove("when.condition_then_body_in_order", z3.BoolVal(bool(ok)))
    else:
        args = [VObj(VClass("ClassModificationArgument"), {}) for i in range(eng.choice(3))]
        ks = [kid(a, "marg%d" % i) for i, a in enumerate(args)]
        tree = VObj(VClass("ClassModification"), {"arguments": VList(args)})
        eng.call(VBound(eng.find_function(MOD, "XmlGenerator.exitClassModification"), g), [tree], {})
        el = ops.getitem(eng, xml, tree)
        eng.prove("classmod.arguments_in_order", z3.BoolVal(el.tag == "modifier" and children_ok(el, ks)))
    eng.cover("xml." + which)


def h_declaration_equation(eng):
    """A declaration equation (Real v = 3 * x) reaches the generator as Equation(left=<the Symbol object v>, right=...): flattening puts
    the symbol itself on the left-hand side.  The callbacks that meet on it -- exitSymbol (the component), exitEquation, exitClass --
    are run in the walker's order on one class; the result must hold one component per variable AND an <equal> with both sides."""
    g, A = setup(eng)
    from contracts.C10 import PrefixList

    class P(PrefixList):
        def __init__(self, eng):
            self.label, self.has, self.appended = "sym", {k: False for k in VARIABILITY}, []
    xml = g.fields["xml"]
    lhs_is_symbol = bool(eng.choice(2))
    eng.input("left_hand_side", "the Symbol object (declaration equation)" if lhs_is_symbol else "a ComponentRef")
    syms = []
    for n in ("x", "v"):
        sy = VObj(VClass("Symbol"), {"name": n, "prefixes": P(eng), "type": VObj(VClass("ComponentRef"), {"name": "Real"})})
        sy.cls.bases = []
        for f in ("start", "value", "fixed"):
            sy.fields[f] = A.prim(None)
        syms.append(sy)
    sym_cls = eng.module_global(eng.load_module("pymoca.ast"), "Symbol")
    for sy in syms:
        sy.cls = sym_cls
    rhs = A.ref("x")
    eng.call(VBound(eng.find_function(MOD, "XmlGenerator.exitComponentRef"), g), [rhs], {})
    left = syms[1] if lhs_is_symbol else A.ref("v")
    if not lhs_is_symbol:
        eng.call(VBound(eng.find_function(MOD, "XmlGenerator.exitComponentRef"), g), [left], {})
    for sy in syms:
        eng.call(VBound(eng.find_function(MOD, "XmlGenerator.exitSymbol"), g), [sy], {})
    eq = A.new("Equation", left=left, right=rhs)
    eng.call(VBound(eng.find_function(MOD, "XmlGenerator.exitEquation"), g), [eq], {})
    cls = VObj(VClass("Class"), {"name": "M", "symbols": VDict([(sy.fields["name"], sy) for sy in syms]), "equations": VList([eq])})
    eng.call(VBound(eng.find_function(MOD, "XmlGenerator.exitClass"), g), [cls], {})
    eng.cover("xml.declaration_equation")
    el = ops.getitem(eng, xml, cls)
    c = el.children[0] if el.children else None
    comps = [k for k in (c.children if c is not None else []) if isinstance(k, Elem) and k.tag == "component"]
    eng.prove("decleq.one_component_per_variable", z3.BoolVal([k.attrs.get("name") for k in comps] == ["x", "v"]))
    eqs = [k for k in (c.children if c is not None else []) if isinstance(k, Elem) and k.tag == "equation"]
    equal = eqs[0].children[0] if len(eqs) == 1 and len(eqs[0].children) == 1 else None
    ok = equal is not None and equal.tag == "equal" and len(equal.children) == 2
    ok = ok and equal.children[0].tag == "local" and equal.children[0].attrs.get("name") == "v" and equal.children[1].tag == "local" and equal.children[1].attrs.get("name") == "x"
    eng.prove("decleq.equal_has_the_variable_on_the_left_and_the_value_on_the_right", z3.BoolVal(bool(ok)),
              equal=[getattr(k, "tag", "?") for k in (equal.children if equal is not None else [])])


def component_element(eng, g, sym):
    """the component element the generator made for a symbol, observed where the backend hands it out: in the class element of a
    class that declares (only) this symbol -- not in whichever private table exitSymbol keeps it"""
    cls = VObj(VClass("Class"), {"name": "Only", "symbols": VDict([(sym.fields["name"], sym)]), "equations": VList([])})
    eng.call(VBound(eng.find_function(MOD, "XmlGenerator.exitClass"), g), [cls], {})
    el = ops.getitem(eng, g.fields["xml"], cls)
    c = el.children[0] if isinstance(el, Elem) and el.children else None
    comps = [k for k in (c.children if c is not None else []) if isinstance(k, Elem) and k.tag == "component"]
    return comps[0] if len(comps) == 1 else None


def h_when_equation_in_a_class(eng):
    """exitSymbol, exitEquation, exitWhenEquation and exitClass composed on one class in the walker's order: a variable assigned inside
    a when-equation (y, declared without any prefix) and one declared `discrete` (d).  When the class element is built, every
    component element still says exactly what exitSymbol derived from ITS symbol -- name, variability and the other attributes come
    from the flat variable's own prefixes, not from where the variable is used."""
    g, A = setup(eng)
    from contracts.C10 import PrefixList
    xml = g.fields["xml"]

    class P(PrefixList):
        def __init__(self, eng, discrete):
            self.label, self.appended = "sym", []
            self.has = {k: (k == "discrete" and discrete) for k in VARIABILITY}
    sym_cls = eng.module_global(eng.load_module("pymoca.ast"), "Symbol")
    syms = []
    for n, disc in (("y", False), ("d", True), ("x", False)):
        sy = VObj(sym_cls, {"name": n, "prefixes": P(eng, disc), "type": VObj(VClass("ComponentRef"), {"name": "Real"})})
        for f in ("start", "value", "fixed"):
            sy.fields[f] = A.prim(None)
        syms.append(sy)
    f_ref = eng.find_function(MOD, "XmlGenerator.exitComponentRef")
    refs = {}
    for n in ("y", "d", "x", "c"):
        refs[n] = A.ref(n)
        eng.call(VBound(f_ref, g), [refs[n]], {})
    for sy in syms:
        eng.call(VBound(eng.find_function(MOD, "XmlGenerator.exitSymbol"), g), [sy], {})
    before = {sy.fields["name"]: dict(component_element(eng, g, sy).attrs) for sy in syms}
    body = [A.new("Equation", left=refs["y"], right=refs["x"]), A.new("Equation", left=refs["d"], right=refs["x"])]
    for e in body:
        eng.call(VBound(eng.find_function(MOD, "XmlGenerator.exitEquation"), g), [e], {})
    when = VObj(VClass("WhenEquation"), {"conditions": VList([refs["c"]]), "blocks": VList([VList(body)])})
    eng.call(VBound(eng.find_function(MOD, "XmlGenerator.exitWhenEquation"), g), [when], {})
    cls = VObj(VClass("Class"), {"name": "M", "symbols": VDict([(sy.fields["name"], sy) for sy in syms]), "equations": VList([when])})
    eng.call(VBound(eng.find_function(MOD, "XmlGenerator.exitClass"), g), [cls], {})
    eng.cover("xml.when_in_class")
    el = ops.getitem(eng, xml, cls)
    c = el.children[0] if el.children else None
    comps = [k for k in (c.children if c is not None else []) if isinstance(k, Elem) and k.tag == "component"]
    eng.prove("whenclass.one_component_per_variable_in_order", z3.BoolVal([k.attrs.get("name") for k in comps] == ["y", "d", "x"]))
    after = {k.attrs.get("name"): dict(k.attrs) for k in comps}
    eng.prove("whenclass.components_say_what_their_own_symbols_say", z3.BoolVal(after == before), before=repr(before), after=repr(after))
    eng.prove("whenclass.variability_comes_from_the_declared_prefixes", z3.BoolVal(after.get("d", {}).get("variability") == "discrete" and
                                                                                    after.get("y", {}).get("variability") == before["y"].get("variability")))


VARIABILITY = ["discrete", "continuous", "parameter", "constant"]


def h_symbol(eng):
    g, A = setup(eng)
    from contracts.C10 import PrefixList

    class P(PrefixList):
        def __init__(self, eng):
            self.label = "sym"
            self.has = {k: eng.input("prefix.%s" % k, eng.fresh_bool(k)) for k in VARIABILITY}
            self.appended = []
    p = P(eng)
    name = eng.input("name", eng.fresh_str("name"))
    typ = eng.input("type", eng.fresh_str("type"))
    vals = {}
    for f in ("start", "value"):
        # literal values incl. the falsy ones (0, 0.0, Boolean false): only "not set" (None) may be left out
        choice = [None, 2.5, 0, 0.0, False, True, -3, 1e-08, 1.25e-06]
        vals[f] = choice[eng.choice(len(choice))]
    vals["fixed"] = [None, True, False][eng.choice(3)]
    eng.input("attributes", dict(vals))
    sym = VObj(VClass("Symbol"), {"name": name, "prefixes": p, "type": VObj(VClass("ComponentRef"), {"name": typ})})
    for f, v in vals.items():
        sym.fields[f] = A.prim(v)
    eng.call(VBound(eng.find_function(MOD, "XmlGenerator.exitSymbol"), g), [sym], {})
    eng.cover("xml.symbol")
    el = component_element(eng, g, sym)
    ok = isinstance(el, Elem) and el.tag == "component" and len(el.children) == 2 and el.children[0].tag == "builtin" and el.children[1].tag == "modifier"
    eng.prove("symbol.is_component_with_builtin_and_modifier", z3.BoolVal(bool(ok)))
    if not ok:
        return
    eng.prove("symbol.name_and_type", z3.And(ops.to_z3(el.attrs.get("name", "")) == name, ops.to_z3(el.children[0].attrs.get("name", "")) == typ))
    # (P) variability: the first of discrete, continuous, parameter, constant that the symbol has
    want = None
    conds = []
    for v in VARIABILITY:
        first = z3.And(p.has[v], *[z3.Not(p.has[u]) for u in VARIABILITY[:VARIABILITY.index(v)]])
        conds.append(z3.Implies(first, z3.BoolVal(el.attrs.get("variability") == v)))
    conds.append(z3.Implies(z3.Not(z3.Or([p.has[v] for v in VARIABILITY])), z3.BoolVal("variability" not in el.attrs)))
    eng.prove("symbol.variability", z3.And(conds))
    # (P) literal start / value items, exact; fixed only when true
    items = el.children[1].children
    got = {}
    for it in items:
        got[it.attrs.get("name")] = it
    ok_items = True
    for f in ("start", "value"):
        if vals[f] is None:
            ok_items = ok_items and f not in got
        else:
            it = got.get(f)
            ok_items = ok_items and it is not None and it.tag == "item" and len(it.children) == 1 and it.children[0].tag == "real" and \
                _same_number(it.children[0].attrs.get("value"), vals[f])
    if vals["fixed"] is True:
        it = got.get("fixed")
        ok_items = ok_items and it is not None and len(it.children) == 1 and it.children[0].tag == "true"
    else:
        ok_items = ok_items and "fixed" not in got
    ok_items = ok_items and len(items) == len(got) and [i.attrs.get("name") for i in items] == [f for f in ("start", "value", "fixed") if f in got]
    eng.prove("symbol.literal_start_value_fixed_items", z3.BoolVal(bool(ok_items)))


def _same_number(txt, v):
    try:
        if txt in ("True", "False"):
            return (txt == "True") == bool(v) and isinstance(v, bool)
        return float(txt) == float(v)
    except (TypeError, ValueError):
        return False


def _shape(el):
    """an element as plain data (tag, attributes, children), literals as they are"""
    if isinstance(el, Elem):
        return (el.tag, tuple(sorted((k, repr(v)) for k, v in el.attrs.items())), tuple(_shape(c) for c in el.children))
    return repr(el)


def _class_components(eng, g, cls_name, syms):
    """exitSymbol for every symbol of one class, then exitClass: the component elements of the class element, as plain data"""
    xml = g.fields["xml"]
    for sy in syms:
        eng.call(VBound(eng.find_function(MOD, "XmlGenerator.exitSymbol"), g), [sy], {})
    cls = VObj(VClass("Class"), {"name": cls_name, "symbols": VDict([(sy.fields["name"], sy) for sy in syms]), "equations": VList([])})
    eng.call(VBound(eng.find_function(MOD, "XmlGenerator.exitClass"), g), [cls], {})
    el = ops.getitem(eng, xml, cls)
    c = el.children[0] if isinstance(el, Elem) and el.children else None
    return [_shape(k) for k in (c.children if c is not None else []) if isinstance(k, Elem) and k.tag == "component"]


def h_two_classes_with_one_variable_name(eng):
    """One generator walks every class of the flat tree: a called function (pulled in before the model) and the model.  A formal
    parameter of the function and a top-level variable of the model may have the SAME name (flat names are unique per class only).
    The components of each class element are what exitSymbol derives from that class's own symbols -- exactly what the same class
    gives when it is the only class the generator ever sees."""
    from contracts.C10 import PrefixList

    class P(PrefixList):
        def __init__(self, eng, kinds):
            self.label, self.appended = "sym", []
            self.has = {k: (k in kinds) for k in VARIABILITY}
    real = lambda: VObj(VClass("ComponentRef"), {"name": "Real"})

    def mk(A, name, kinds, start=None, value=None, typ="Real"):
        sy = VObj(VClass("Symbol"), {"name": name, "prefixes": P(eng, kinds), "type": VObj(VClass("ComponentRef"), {"name": typ})})
        for f, v in (("start", start), ("value", value), ("fixed", None)):
            sy.fields[f] = A.prim(v)
        return sy
    order = eng.choice(2)
    eng.input("walk_order", ["function first", "model first"][order])

    def classes(A):
        return {"F": [mk(A, "lim", []), mk(A, "x", [], typ="Integer"), mk(A, "r", [])],
                "M": [mk(A, "lim", ["parameter"], value=0.5), mk(A, "x", [], start=1), mk(A, "y", ["discrete"])]}
    # reference: each class alone
    alone = {}
    for nme in ("F", "M"):
        g1, A1 = setup(eng)
        alone[nme] = _class_components(eng, g1, nme, classes(A1)[nme])
    g, A = setup(eng)
    both = classes(A)
    got = {}
    for nme in (("F", "M") if order == 0 else ("M", "F")):
        got[nme] = _class_components(eng, g, nme, both[nme])
    eng.cover("xml.two_classes")
    for nme in ("F", "M"):
        eng.prove("twoclasses.components_of_a_class_come_from_its_own_symbols", z3.BoolVal(got[nme] == alone[nme] and len(got[nme]) == 3),
                  class_=nme, got=repr(got[nme])[:300], alone=repr(alone[nme])[:300])


HARNESSES = [("XmlGenerator.exitExpression", h_expression), ("XmlGenerator.exitPrimary/exitComponentRef", h_leaves),
             ("XmlGenerator.exitEquation/Function/Class/Tree/WhenEquation/ClassModification", h_equation_and_containers),
             ("XmlGenerator: a when-equation inside a class (exitSymbol + exitEquation + exitWhenEquation + exitClass)", h_when_equation_in_a_class),
             ("XmlGenerator.exitSymbol", h_symbol), ("XmlGenerator: declaration equation (exitSymbol + exitEquation + exitClass)", h_declaration_equation),
             ("XmlGenerator: two classes of the flat tree with one variable name", h_two_classes_with_one_variable_name)]
EXPECTED_COVER = {"xml.when_in_class", "xml.expression", "xml.primary", "xml.ref", "xml.symbol", "xml.equation", "xml.function", "xml.class", "xml.tree",
                  "xml.when", "xml.classmod", "xml.declaration_equation", "xml.two_classes"}
BOUNDED = True
LEVEL = "proof"
TRUSTED = ["pyvc VC generator", "z3 5.1.0", "lxml: objectify.E(tag, *children, **attrs) builds an element with those children in order and those attributes; etree.tostring emits well-formed text",
           "pymoca's TreeWalker visits every node once, children before the parent's exit callback (so xml[child] exists)", "str(float) round-trips"]
ASSUMPTIONS = [
    "child counts enumerated (1-3 operands, 0-3 arguments, 0-2 symbols/equations); operator, names and types are symbolic strings; literal values are an enumerated list including small and large floats",
    "node kinds without a callback (if/for equations, arrays) make the parent's lookup fail with KeyError: 'unsupported kinds raise rather than being dropped' follows from the dictionary lookup, not checked separately",
]
EXPLANATION = "Structural-induction step for every XmlGenerator callback."
MANIFEST = {
    "category": "proof",
    "text": "Every exit callback of XmlGenerator is verified as a structural-induction step over the real source: with the children's elements given, the node's element has the tag and attributes of its kind/operator (symbolic strings) and the children's elements in order, one each; symbols carry name, builtin type, the first matching variability and exact literal start/value/fixed items; classes one component per symbol and one equation element per equation. A bounded replay parses the XML produced for real flat models and compares it with the flat AST. Two classes of one flat tree with a common variable name: each class element lists the components of its own symbols, in both walk orders.",
    "note": "lxml's E-factory and the TreeWalker order are assumed; child counts and literal values enumerated.",
    "technique": "contract-based deductive verification: per-callback structural-induction obligations by symbolic execution with a free-constructor model of lxml, z3",
}
