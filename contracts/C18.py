"""C18 -- vector expansion is a faithful renaming to scalars.

Function under contract (real source, whole function): Model._expand_vectors, and
Generator.get_symbol's shape bookkeeping (len(_modelica_shape) = number of dotted components).
The shapes are enumerated (1-D, 2-D non-square, arrays nested in component arrays, derivative
names, a delayed state); attribute values are recording objects, so that the obligation is about
WHICH element of the array's attribute each generated scalar receives.
Index lemma (z3, all sizes): with v the row-major list of an n1 x n2 array,
reshape(vertcat(v), (n2, n1)).T  puts scalar (i, j) at position (i, j)  (CasADi reshape is column-major: assumed).
"""
import itertools
import re as pyre

import z3

from pyvc import ops
from pyvc.values import Ext, NoOp, PyRaise, Unsupported, VBound, VClass, VDict, VList, VObj, VSet, stub

from .api_common import CollectionsStub, ModuleStub, itertools_module

MODEL = "pymoca.backends.casadi.model"
ATTRS = ("value", "min", "max", "start", "fixed", "nominal")


class SymT(Ext):
    type_names = ("MX",)

    def __init__(self, name, shape=(1, 1), mshape=None):
        self.nm, self.shape, self.mshape = name, shape, mshape

    def sym_getattr(self, eng, name):
        if name == "name":
            return stub(lambda eng: self.nm)
        if name == "_modelica_shape":
            return self.mshape
        if name == "shape":
            return self.shape
        shp = tuple(self.shape) + (1,) * (2 - len(self.shape)) if len(self.shape) < 2 else tuple(self.shape)
        if name == "size":
            return stub(lambda eng, *a: shp if not a else shp[a[0] - 1])
        if name in ("size1", "size2"):
            return stub(lambda eng: shp[int(name[-1]) - 1])
        if name in ("numel", "nnz"):
            n_ = 1
            for d_ in shp:
                n_ *= d_
            return stub(lambda eng: n_)
        raise Unsupported("MX.%s" % name)

    def sym_isinstance(self, eng, cls):
        return cls.name == "MX"


class Mat(Ext):
    """a non-scalar MX attribute value: records the index it is subscripted with"""
    type_names = ("MX",)

    def __init__(self, label, shape):
        self.label, self.shape = label, shape

    def sym_getattr(self, eng, name):
        if name == "shape":
            return self.shape
        if name == "size":
            return stub(lambda eng, *a: tuple(self.shape) if not a else self.shape[a[0] - 1])
        if name in ("size1", "size2"):
            return stub(lambda eng: self.shape[int(name[-1]) - 1])
        if name in ("numel", "nnz"):
            return stub(lambda eng: self.shape[0] * self.shape[1])
        if name == "is_scalar":
            return stub(lambda eng, *a: tuple(self.shape) == (1, 1))
        if name in ("is_vector", "is_column"):
            return stub(lambda eng: self.shape[1] == 1)
        if name in ("is_constant", "is_symbolic", "is_empty"):
            return stub(lambda eng, *a: False)
        raise Unsupported("MX.%s" % name)

    def sym_getitem(self, eng, key):
        return Elem(self, key)

    def sym_isinstance(self, eng, cls):
        return cls.name == "MX"


class Elem(Ext):
    type_names = ("MX",)

    def __init__(self, mat, key):
        self.mat, self.key = mat, key

    def position(self):
        """(row, column) of the matrix this element is: a pair subscript is (row, column); a single subscript counts the elements
        column by column (CasADi's linear indexing, also the order of ca.vec)"""
        return position_of(self.key, self.mat.shape)


def position_of(key, shape):
    if isinstance(key, tuple) and len(key) == 2:
        return tuple(key)
    k_ = key[0] if isinstance(key, tuple) else key
    if not isinstance(k_, int):
        return None
    return (k_ % shape[0], k_ // shape[0])


class VecOf(Ext):
    """ca.vec(M): the column-by-column vector of M's elements"""
    type_names = ("MX",)

    def __init__(self, mat):
        self.mat = mat
        self.shape = (mat.shape[0] * mat.shape[1], 1)

    def sym_getattr(self, eng, name):
        if name == "shape":
            return self.shape
        raise Unsupported("MX.%s" % name)

    def sym_getitem(self, eng, key):
        k_ = key[0] if isinstance(key, tuple) else key
        return Elem(self.mat, k_)


class Leaf(Ext):
    """an element of a nested-list attribute"""

    def __init__(self, path):
        self.path = path


class Built(Ext):
    def __init__(self, kind, args):
        self.kind, self.args = kind, args

    def sym_getattr(self, eng, name):
        if name == "T":
            return Built("T", (self,))
        raise Unsupported("MX.%s" % name)


class ReStub(Ext):
    def sym_getattr(self, eng, name):
        if name == "match":
            def match(eng, pat, s):
                m = pyre.match(pat, s)
                return None if m is None else MatchStub(m)
            return stub(match)
        raise Unsupported("re.%s" % name)


class MatchStub(Ext):
    def __init__(self, m):
        self.m = m

    def sym_getattr(self, eng, name):
        if name == "groups":
            return stub(lambda eng: tuple(self.m.groups()))
        raise Unsupported("match.%s" % name)


def install(eng):
    mx = VClass("MX")
    mx.attrs["sym"] = stub(lambda eng, name, *shape: SymT(name))
    # ca.MX(x) of something that already is an MX expression is that expression
    mx.constructor = lambda eng, c, a, k: a[0] if a and isinstance(a[0], (Mat, Elem, VecOf, Built, SymT)) else (
        Built("MX", (a[0],)) if a and isinstance(a[0], (ScalarVal, int, float)) else _uns("MX(...)"))
    dm = VClass("DM")

    def flat(shape):
        out = []
        for d in shape:
            out.extend(d if isinstance(d, tuple) else [d])
        return out
    numpy = ModuleStub("numpy", {
        "nan": float("nan"), "inf": float("inf"), "ndarray": VClass("ndarray"),
        "ndindex": stub(lambda eng, *shape: VList([tuple(t) for t in itertools.product(*[range(d) for d in flat(shape[0] if len(shape) == 1 and isinstance(shape[0], tuple) else shape)])])),
        "isscalar": stub(lambda eng, v: isinstance(v, (int, float, bool)) or isinstance(v, ScalarVal)),
        "prod": stub(lambda eng, shape: _prod(eng.iterate(shape))),
    })
    cas = ModuleStub("casadi", {"MX": mx, "DM": dm, "vertcat": stub(lambda eng, *a: Built("vertcat", a)),
                                "reshape": stub(lambda eng, e, *shape: Built("reshape", (e, tuple(shape)))),
                                "substitute": stub(lambda eng, e, a, b: e),
                                "vec": stub(lambda eng, m_: VecOf(m_) if isinstance(m_, Mat) else m_),
                                "vertsplit": stub(lambda eng, v_, *a: VList([Elem(v_.mat, k_) for k_ in range(v_.shape[0])]) if isinstance(v_, VecOf) else _uns("vertsplit")),
                                "horzsplit": stub(lambda eng, v_, *a: _uns("horzsplit")),
                                "veccat": stub(lambda eng, *a: Built("veccat", a)),
                                "symvar": stub(lambda eng, e: VList(_symbols_in(e)))})
    typing = ModuleStub("typing", {})
    eng.ext_modules.update({"casadi": cas, "numpy": numpy, "re": ReStub(), "logging": ModuleStub("logging", {"getLogger": stub(lambda eng, *a: NoOp())}),
                            "itertools": itertools_module(), "sys": ModuleStub("sys", {"maxsize": 2 ** 63 - 1}),
                            "collections": CollectionsStub(), "typing": typing})
    eng.call_contracts.clear()
    eng.loop_specs.clear()


def _symbols_in(e):
    """the symbols an expression of this model's term stubs mentions (ca.symvar)"""
    out = []

    def go(x):
        if isinstance(x, SymT):
            if not any(x is o for o in out):
                out.append(x)
        elif isinstance(x, Built):
            for a_ in x.args:
                go(a_)
        elif isinstance(x, (tuple, list)):
            for a_ in x:
                go(a_)
        elif isinstance(x, VList):
            for a_ in x.items:
                go(a_)
        elif isinstance(x, Elem):
            go(x.mat)
        elif isinstance(x, VecOf):
            go(x.mat)
    go(e)
    return out


def _uns(what):
    raise Unsupported("casadi.%s of this operand" % what)


def _prod(xs):
    p = 1
    for x in xs:
        p *= x
    return p


class ScalarVal(Ext):
    def __init__(self, label):
        self.label = label


def nested(shape, path=()):
    if not shape:
        return Leaf(path)
    return VList([nested(shape[1:], path + (i,)) for i in range(shape[0])])


CASES = [
    # name, modelica shape, casadi shape, is delay state
    ("x", ((3,),), (3, 1), False),
    ("w", ((2, 3),), (2, 3), False),
    ("a.b", ((2,), (3,)), (2, 3), False),
    ("c.v", ((None,), (2,)), (2, 1), False),
    ("der(a.x)", ((None,), (2,)), (2, 1), False),
    ("der(w)", ((3, 2),), (3, 2), False),
    ("_pymoca_delay_0", (2, 1), (2, 1), True),
    ("_pymoca_delay_1", (2, 3), (2, 3), True),          # a delayed 2-D array expression
    ("s", ((None,),), (1, 1), False),
]


def expected_name(name, mshape, ind, delay):
    if delay:
        return "%s[%s]" % (name, ",".join(str(i + 1) for i in ind))
    m = pyre.match(r"((?:der\()*)(.*?)(\)*)$", name)
    pre, core, post = m.groups()
    parts, out, k = core.split("."), [], 0
    for part, shp in zip(parts, mshape):
        if shp == (None,):
            out.append(part)
        else:
            out.append("%s[%s]" % (part, ",".join(str(ind[k + t] + 1) for t in range(len(shp)))))
            k += len(shp)
    return pre + ".".join(out) + post


DUR = None


def h_expand(eng, cases=None):
    global DUR
    DUR = ScalarVal("duration")
    install(eng)
    mm = eng.load_module(MODEL)
    cls = eng.module_global(mm, "Model")
    dv = eng.module_global(mm, "_DefaultValue")
    dv.constructor = lambda eng, c, a, k: VObj(c, {"value": a[0] if a else 0})
    f = eng.find_function(MODEL, "Model._expand_vectors")
    cases = cases if cases is not None else CASES
    name, mshape, cshape, delay = cases[eng.choice(len(cases))]
    group = ["states", "alg_states", "inputs"][eng.choice(3)] if not delay else "inputs"
    if name.startswith("der("):
        group = "der_states"
    eng.input("variable", {"name": name, "modelica_shape": repr(mshape), "group": group})
    flat_shape = tuple(d for s in (mshape if not delay else (mshape,)) for d in (s if isinstance(s, tuple) else (s,)) if d is not None)
    var_cls = eng.module_global(mm, "Variable")
    sym = SymT(name, cshape, mshape)
    old = VObj(var_cls, {"symbol": sym, "python_type": eng.builtins["float"], "aliases": VSet([])})
    kinds = {}
    for i, a in enumerate(ATTRS):
        k = ["scalar", "matrix", "list", "mx-scalar"][(i + eng.choice(4)) % 4] if a in ("min", "max") else ["scalar", "matrix", "list", "mx-scalar"][i % 4]
        if not flat_shape:
            k = "scalar"
        kinds[a] = k
        if k == "scalar":
            old.fields[a] = ScalarVal("%s.%s" % (name, a))
        elif k == "matrix":
            old.fields[a] = Mat("%s.%s" % (name, a), cshape)
        elif k == "mx-scalar":
            old.fields[a] = Mat("%s.%s" % (name, a), (1, 1))
        else:
            old.fields[a] = nested(flat_shape)
    eng.input("attribute_kinds", kinds)
    other = VObj(var_cls, {"symbol": SymT("other", (1, 1), ((None,),)), "python_type": eng.builtins["float"]})
    m = VObj(cls, {g: VList([]) for g in ("states", "der_states", "alg_states", "inputs", "parameters", "constants")})
    m.fields[group] = VList([other, old]) if eng.choice(2) else VList([old, other])
    # one matrix-valued equation and one matrix-valued initial equation (der(W) = ..., a loop over several equations, ...)
    eq_mat, ieq_mat = Mat("equation", (2, 3)), Mat("initial_equation", (3, 2))
    m.fields.update({"equations": VList([eq_mat]), "initial_equations": VList([ieq_mat]), "delay_arguments": VList([]), "delay_states": VList([]),
                     "outputs": VList(["before", name, "after"])})
    dexpr = Mat("delayed_expr", cshape)
    if delay:
        dvar = VObj(var_cls, {"symbol": SymT("d_other", (1, 1), (1, 1)), "python_type": eng.builtins["float"]})
        for a_ in ATTRS:
            dvar.fields[a_] = ScalarVal("d_other." + a_)
        m.fields["inputs"].items.append(dvar)
        m.fields["delay_states"] = VList(["d_other", name])
        da = eng.module_global(mm, "DelayArgument")
        # the model's real DelayArgument named tuple (iterable, indexable)
        DA = eng.module_global(mm, "DelayArgument")
        m.fields["delay_arguments"] = VList([eng.call(DA, [Mat("other_expr", (1, 1)), 3600.0], {}), eng.call(DA, [dexpr, DUR], {})])
    subst_meta = []
    cls.attrs["_substitute_metadata"] = _rec(subst_meta)
    cls.attrs["_substitute_delay_arguments"] = _rec2()
    try:
        eng.call(VBound(f, m), [], {})
    except PyRaise as e:
        eng.prove("expand.no_exception", False, exc=repr(e.exc))
        return
    eng.cover("expand.done")
    new = [v for v in m.fields[group].items if v is not other and not (isinstance(v.fields.get("symbol"), SymT) and v.fields["symbol"].nm.startswith("d_other"))]
    inds = list(itertools.product(*[range(d) for d in flat_shape])) if flat_shape else None
    if inds is None:
        eng.prove("expand.scalars_untouched", z3.BoolVal(new == [old]))
        return
    # (P) one scalar per element, in row-major order, named with 1-based indices
    names = [v.fields["symbol"].nm if isinstance(v.fields.get("symbol"), SymT) else None for v in new]
    want = [expected_name(name, mshape, ind, delay) for ind in inds]
    eng.prove("expand.scalar_names_row_major_one_based", z3.BoolVal(names == want), got=names, want=want)
    eng.prove("expand.position_of_other_variables_kept", z3.BoolVal(m.fields[group].items.index(other) in (0, len(new))))
    if names != want:
        return
    # (P) every scalar carries the matching element of each attribute
    for v, ind in zip(new, inds):
        for a in ATTRS:
            got, src = v.fields.get(a), old.fields[a]
            if kinds[a] == "scalar":
                ok = got is src
            elif kinds[a] == "mx-scalar":
                ok = got is src
            elif kinds[a] == "matrix":
                ok = isinstance(got, Elem) and got.mat is src and got.position() == (tuple(ind) if len(ind) == 2 else (ind[0], 0))
            else:
                ok = isinstance(got, Leaf) and got.path == tuple(ind)
            eng.prove("expand.attribute_element_matches_scalar_index", z3.BoolVal(bool(ok)), attribute=a, kind=kinds[a], index=list(ind))
        eng.prove("expand.python_type_kept", z3.BoolVal(v.fields.get("python_type") is old.fields["python_type"]))
    # (P) outputs: the array's entry is replaced in place by the scalars' names in order
    # (P) the residual of the expanded model is the unexpanded residual entry by entry: the unexpanded functions stack the equations
    # with ca.veccat, i.e. each matrix equation column by column, so the scalar equations come in that order
    for label, mat, fld in (("equation", eq_mat, "equations"), ("initial_equation", ieq_mat, "initial_equations")):
        got_eq = m.fields[fld].items if isinstance(m.fields[fld], VList) else list(m.fields[fld])
        want_pos = [(r_, c_) for c_ in range(mat.shape[1]) for r_ in range(mat.shape[0])]
        okq = len(got_eq) == len(want_pos) and all(isinstance(e_, Elem) and e_.mat is mat and e_.position() == w_ for e_, w_ in zip(got_eq, want_pos))
        eng.prove("expand.matrix_%s_becomes_its_entries_in_column_order" % label, z3.BoolVal(bool(okq)),
                  got=[e_.position() if isinstance(e_, Elem) else repr(e_) for e_ in got_eq][:8])
    eng.prove("expand.outputs_replaced_in_place_in_order", z3.BoolVal(m.fields["outputs"].items == ["before"] + want + ["after"]))
    # (P) the substitution value is reshape(vertcat(row-major scalars), reversed shape).T
    # (checked through the call to _substitute_metadata, which receives the symbols / values lists)
    ok = False
    # (P) attributes of the new scalars are written over the OLD array symbols (x[1].min = lo[0]): the metadata substitution must be
    # handed every expanded array symbol, whether or not an equation mentions it
    handed = bool(subst_meta) and any(x is sym for x in subst_meta[-1][0])
    if flat_shape:
        eng.prove("expand.every_expanded_array_symbol_is_substituted_in_the_metadata", z3.BoolVal(handed))
    if subst_meta:
        syms, vals = subst_meta[-1]
        idx = [i for i, x in enumerate(syms) if x is sym]
        if len(idx) == 1 and len(vals) == len(syms):
            t = vals[idx[0]]
            ok = isinstance(t, Built) and t.kind == "T" and t.args[0].kind == "reshape" and tuple(t.args[0].args[1]) == tuple(reversed(cshape)) and \
                t.args[0].args[0].kind == "vertcat" and [x.nm for x in t.args[0].args[0].args] == want
    eng.prove("expand.substituted_matrix_is_transposed_reshape_of_row_major_scalars", z3.BoolVal(bool(ok)))
    if delay:
        ds = m.fields["delay_states"].items
        das = m.fields["delay_arguments"]
        items = das.items if isinstance(das, VList) else []
        pos = [ds.index(w) if w in ds else -1 for w in want]
        eng.prove("expand.delay_states_renamed_element_by_element", z3.BoolVal(sorted(ds) == sorted(["d_other[1,1]"] + want) and
                                                                                 pos == list(range(pos[0], pos[0] + len(want)))))
        def element(key):
            return position_of(key, cshape)
        okd = len(items) == len(ds) and all(0 <= p < len(items) and isinstance(items[p].fields.get("expr"), Elem) and items[p].fields["expr"].mat is dexpr and
                                            element(items[p].fields["expr"].key) == tuple(ind)
                                            and items[p].fields.get("duration") is DUR for p, ind in zip(pos, inds))
        eng.prove("expand.delay_arguments_follow_the_same_order", z3.BoolVal(bool(okd)))


def _da_class():
    c = VClass("DelayArgument")
    c.constructor = lambda eng, cc, a, k: VObj(cc, {"expr": a[0], "duration": a[1]})
    return c


def _rec(store):
    def m(eng, selfobj, symbols, values):
        store.append((list(eng.iterate(symbols)), list(eng.iterate(values))))
    m._pyvc_method = True
    return m


def _rec2():
    def m(eng, selfobj, da, symbols, values):
        return da
    m._pyvc_method = True
    return m


def h_index_lemma(eng):
    """reshape is column-major (assumed); then reshape(vertcat(v), (n2, n1)).T[i, j] = v[i*n2 + j]"""
    n1, n2, i, j = [eng.input(n, eng.fresh_int(n)) for n in ("n1", "n2", "i", "j")]
    eng.assume(z3.And(n1 >= 1, n2 >= 1, i >= 0, i < n1, j >= 0, j < n2))
    colmajor = lambda a, b, rows: a + b * rows          # linear index of (a, b) in a matrix with `rows` rows
    M_ab = lambda a, b: colmajor(a, b, n2)               # reshape(v, (n2, n1))[a, b] = v[a + b*n2]
    transposed = M_ab(j, i)                              # .T[i, j] = M[j, i]
    eng.cover("lemma.done")
    eng.prove("lemma.transposed_reshape_restores_row_major_positions", transposed == i * n2 + j)
    eng.prove("lemma.index_in_range", z3.And(transposed >= 0, transposed < n1 * n2))


# ------------------------------------------------------------------------------------------------ Generator.get_symbol: shape bookkeeping
GEN = "pymoca.backends.casadi.generator"
SHAPES = [  # dimensions per component level of the flat symbol (None = scalar level), with / without expand_vectors
    ((None,),), ((3,),), ((2,), (3,)), ((None,), (3,)), ((2, 3),), ((2,), (None,), (4,)), ((2, 3, 4),), ((2,), (3,), (4,)),
]


def h_get_symbol(eng):
    """Generator.get_symbol: the CasADi symbol of a flat variable is created with the variable's array dimensions (scalar levels of the
    dotted path contribute none), remembers in _modelica_shape the dimensions of EVERY level of the path (so that the expansion can put
    each index behind its own component: len(_modelica_shape) = number of dotted components), and is registered under the flat name;
    three and more array dimensions need expand_vectors (else a NotImplementedError, never a silently reshaped symbol)."""
    from .ast_common import base_modules
    base_modules(eng)
    from .api_common import ModuleStub as _MS
    dm_cls = VClass("DM")
    for nme in ("zeros", "ones", "eye", "nan", "inf"):
        dm_cls.attrs[nme] = stub((lambda n_: lambda eng, *a: Mat("DM." + n_, tuple(a[0]) if a and isinstance(a[0], tuple) else tuple(a) or (1, 1)))(nme))
    eng.ext_modules["casadi"] = _MS("casadi", {"MX": VClass("MX"), "DM": dm_cls})
    eng.ext_modules["numpy"] = _MS("numpy", {})
    eng.ext_modules["pymoca.tree"] = _MS("pymoca.tree", {"TreeListener": VClass("TreeListener"), "TreeWalker": VClass("TreeWalker"), "flatten": None})
    gm = eng.load_module(GEN)
    from .gen_common import new_generator
    shape = SHAPES[eng.choice(len(SHAPES))]
    expand = bool(eng.choice(2))
    eng.input("dimensions_per_level", [list(l) for l in shape])
    eng.input("expand_vectors", expand)
    made = []

    def new_mx(eng, args, kw):
        t = SymT(args[0], tuple(args[1:]))
        t.kind = "MX"
        made.append(t)
        return t

    class Tensor(SymT):
        def sym_setattr(self, eng, name, value):
            setattr(self, "set_" + name, value)
    orig_setattr = SymT.sym_setattr if hasattr(SymT, "sym_setattr") else None

    def sym_setattr(self, eng, name, value):
        if name == "_modelica_shape":
            self.mshape = value
        else:
            raise Unsupported("setattr %s" % name)
    SymT.sym_setattr = sym_setattr
    mt = VClass("_MTensor")

    def mt_ctor(eng, c, a, k):
        t = SymT(a[0], tuple(a[1:]))
        t.kind = "MTensor"
        made.append(t)
        return t
    mt.constructor = mt_ctor
    gm.globals["_MTensor"] = mt
    eng.call_contracts["_new_mx"] = new_mx
    klass = VObj(VClass("Class"), {"name": "M"})
    nodes = VDict([(klass, VDict())])
    derivative = VDict()
    g = new_generator(eng, gm, {"nodes": nodes, "entered_classes": VList([klass]), "src": VDict(), "_expand_vectors_enabled": expand, "for_loops": VList([]),
                                "derivative": derivative})
    dims = VList([VList([("dim", d) for d in level]) for level in shape])
    eng.call_contracts["Generator.get_integer"] = lambda eng, args, kw: args[1][1]
    name = ".".join("c%d" % i for i in range(len(shape)))
    prefixes = [[], ["constant"], ["parameter"], ["input"]][eng.choice(4)]
    eng.input("prefixes", prefixes)
    tree = VObj(VClass("Symbol"), {"name": name, "dimensions": dims, "value": None, "prefixes": VList(list(prefixes))})
    flat = [d for level in shape for d in level if d is not None]
    f = eng.find_function(GEN, "Generator.get_symbol")
    try:
        r = eng.call(VBound(f, g), [tree], {})
    except PyRaise as e:
        nm = e.exc.cls.name if isinstance(e.exc, VObj) else "?"
        eng.cover("symbol.rejected")
        eng.prove("symbol.only_three_or_more_dimensions_without_expand_vectors_are_rejected", z3.BoolVal(nm == "NotImplementedError" and len(flat) > 2 and not expand), exc=nm)
        return
    finally:
        if orig_setattr is None:
            del SymT.sym_setattr
        else:
            SymT.sym_setattr = orig_setattr
    eng.cover("symbol.created")
    eng.prove("symbol.three_or_more_dimensions_need_expand_vectors", z3.BoolVal(not (len(flat) > 2 and not expand)))
    ok = len(made) == 1 and r is made[0] and r.nm == name and tuple(r.shape) == tuple(flat) and r.kind == ("MTensor" if len(flat) > 2 else "MX")
    eng.prove("symbol.created_with_the_array_dimensions_of_all_levels", z3.BoolVal(bool(ok)), got=getattr(r, "shape", None))
    eng.prove("symbol.modelica_shape_records_every_level_of_the_path", z3.BoolVal(getattr(r, "mshape", None) == tuple(tuple(l) for l in shape) and len(r.mshape) == len(name.split("."))))
    kn = nodes.vals[0]
    eng.prove("symbol.registered_under_the_flat_name", z3.BoolVal(kn.keys == [name] and kn.vals[0] is r))
    # frame: creating the symbol of a variable (of whatever class of the flat tree -- a model, or a function whose local names may
    # equal names of the model) says nothing about derivatives: the table `derivative`, keyed by bare names and shared by the
    # whole generator, is get_derivative's alone
    eng.prove("symbol.creating_a_symbol_leaves_the_derivative_table_alone", z3.BoolVal(len(derivative.keys) == 0), keys=[str(k) for k in derivative.keys])


def h_derivative_symbol_of_a_matrix(eng):
    """Generator.get_derivative on a 2-D variable (whole and indexed): the derivative symbol has the variable's own rows x columns
    and Modelica shape -- _expand_vectors lays the scalars of der(M) out by that shape, so a derivative symbol of another layout
    would be renamed to other elements than its state.  (C10's contract of the function, on a 2 x 3 variable.)"""
    from contracts import C10
    C10.h_get_derivative(eng, size=(2, 3), mshape=((2, 3),))


HARNESSES = [("Generator.get_derivative: derivative symbol of a 2-D variable", h_derivative_symbol_of_a_matrix), ("Model._expand_vectors", h_expand), ("lemma: reshape/transpose index", h_index_lemma), ("Generator.get_symbol: shape bookkeeping", h_get_symbol)]
EXPECTED_COVER = {"expand.done", "lemma.done", "symbol.created", "symbol.rejected", "der.constant", "der.symbol", "der.indexed"}
BOUNDED = True
LEVEL = "proof"
TRUSTED = ["pyvc VC generator", "z3 5.1.0", "np.ndindex enumerates index tuples in row-major order; CasADi reshape is column-major, x[i, j] / x[(i, j)] selects element (i, j)",
           "the naming regular expression is executed by CPython's re on the enumerated names (bounded: names with <= 2 components, <= 1 der( wrapper)"]
ASSUMPTIONS = [
    "array shapes and names are enumerated: 1-D, 2-D non-square, array in a component array, scalar in a component, derivatives of both, a delayed state; attribute kinds (scalar, MX matrix, nested list, 1x1 MX) rotate over the attributes",
    "that the expanded residual equals the unexpanded one under the renaming is CasADi's substitute given the substitution matrix proved here",
]
EXPLANATION = "Whole-function execution of _expand_vectors on enumerated shapes with recording attribute values; index lemma in z3."
MANIFEST = {
    "category": "proof",
    "text": "_expand_vectors is executed on the real source for enumerated array shapes (1-D, 2-D non-square, nested component arrays, derivatives, delayed states) with recording attribute values: the generated scalars are named with 1-based indices in row-major order, each carries exactly the element of every attribute at ITS index (matrix, nested list or scalar), outputs and delay states are replaced in place in the same order, and the substitution matrix is the transposed column-major reshape of the row-major scalar list, which the index lemma (z3, all sizes) shows puts scalar (i,j) at (i,j). A bounded replay compares expanded and unexpanded residuals and attributes numerically. Generator.get_derivative on a 2-D variable (C10's contract, parametrised): the derivative symbol has the variable's rows x columns and Modelica shape. A matrix-valued equation becomes its entries in the order of the unexpanded residual (column by column); Generator.get_symbol leaves the derivative table alone.",
    "note": "Shapes enumerated; CasADi reshape/indexing layout assumed; regex naming executed concretely on enumerated names (bounded).",
    "technique": "contract-based deductive verification: whole-function symbolic execution with recording stubs, integer index lemma in z3",
}
