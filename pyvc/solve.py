"""Discharge of obligations: z3 (Python API) first, /usr/bin/cvc5 and z3-new CLI on `unknown`.
A result is PROVED only for `unsat` of  assumptions AND NOT claim  on the unbounded query."""
import os
import subprocess
import tempfile
import time

import z3


class Result:
    def __init__(self, status, backend, seconds, model=None, output=""):
        self.status = status      # PROVED | REFUTED | UNKNOWN
        self.backend = backend
        self.seconds = seconds
        self.model = model
        self.output = output


def _smt2(assumptions, claim, logic=None):
    s = z3.Solver()
    for a in assumptions:
        s.add(a)
    s.add(z3.Not(claim))
    return s.to_smt2()


def _run_cli(cmd, text, timeout_s):
    with tempfile.NamedTemporaryFile("w", suffix=".smt2", delete=False, dir=os.environ.get("PYVC_TMP")) as f:
        f.write(text)
        path = f.name
    try:
        p = subprocess.run(cmd + [path], capture_output=True, text=True, timeout=timeout_s + 5)
        out = (p.stdout + p.stderr).strip()
    except subprocess.TimeoutExpired:
        out = "timeout"
    finally:
        os.unlink(path)
    first = out.splitlines()[0].strip() if out else ""
    return first, out


def model_value(m, v):
    """python value of input v (z3 term / python scalar / tuple / list) under model m"""
    from .values import VList, VSlice
    if isinstance(v, z3.ExprRef):
        r = m.eval(v, model_completion=True)
        if z3.is_int_value(r):
            return r.as_long()
        if z3.is_true(r):
            return True
        if z3.is_false(r):
            return False
        if z3.is_string_value(r):
            return r.as_string()
        if z3.is_rational_value(r):
            return float(r.numerator_as_long()) / float(r.denominator_as_long())
        return str(r)
    if isinstance(v, (tuple, list)):
        return [model_value(m, x) for x in v]
    if isinstance(v, VList):
        return [model_value(m, x) for x in v.items]
    if isinstance(v, VSlice):
        return {"slice": [model_value(m, v.start), model_value(m, v.stop), model_value(m, v.step)]}
    if isinstance(v, dict):
        return {k: model_value(m, x) for k, x in v.items()}
    if v is None or isinstance(v, (int, float, str, bool)):
        return v
    return repr(v)


def discharge_one(ob, timeout_ms=30000, use_cli=True):
    t0 = time.time()
    s = z3.Solver()
    s.set("timeout", timeout_ms)
    for a in ob.assumptions:
        s.add(a)
    s.add(z3.Not(ob.claim))
    r = s.check()
    dt = time.time() - t0
    if r == z3.unsat:
        return Result("PROVED", "z3-%s" % z3.get_version_string(), dt)
    if r == z3.sat:
        m = s.model()
        return Result("REFUTED", "z3-%s" % z3.get_version_string(), dt,
                      {k: model_value(m, v) for k, v in ob.inputs.items()}, "sat")
    reason = s.reason_unknown()
    if use_cli:
        text = _smt2(ob.assumptions, ob.claim)
        uses_strings = "String" in text or "str." in text
        t1 = time.time()
        cmd = ["/usr/bin/cvc5", "--force-logic=ALL", "--tlimit=%d" % timeout_ms] + (["--strings-exp"] if uses_strings else [])
        first, out = _run_cli(cmd, text, timeout_ms / 1000.0)
        if first == "unsat":
            return Result("PROVED", "cvc5-1.0.3", time.time() - t1, output="z3: unknown (%s)" % reason)
        t2 = time.time()
        first2, out2 = _run_cli(["/usr/bin/z3", "-T:%d" % max(1, timeout_ms // 1000)], text, timeout_ms / 1000.0)
        if first2 == "unsat":
            return Result("PROVED", "z3-4.8.12", time.time() - t2, output="z3: unknown (%s)" % reason)
        return Result("UNKNOWN", "z3+cvc5+z3-4.8", time.time() - t0, None,
                      "z3: unknown (%s); cvc5: %s; z3-4.8.12: %s" % (reason, first or out[:80], first2 or out2[:80]))
    return Result("UNKNOWN", "z3", dt, None, "unknown (%s)" % reason)


def _flatten_inputs(inputs):
    """named inputs -> list of (label, z3 term) for scalar terms, plus a rebuild function"""
    from .values import VList, VSlice
    flat = []

    def walk(v):
        if isinstance(v, z3.ExprRef):
            flat.append(v)
            return ("t", len(flat) - 1)
        if isinstance(v, (tuple, list)):
            return ("l", [walk(x) for x in v])
        if isinstance(v, VList):
            return ("l", [walk(x) for x in v.items])
        if isinstance(v, VSlice):
            return ("s", [walk(v.start), walk(v.stop), walk(v.step)])
        if isinstance(v, dict):
            return ("d", {k: walk(x) for k, x in v.items()})
        if v is None or isinstance(v, (int, float, str, bool)):
            return ("c", v)
        return ("c", repr(v))
    shape = {k: walk(v) for k, v in inputs.items()}
    return flat, shape


def _rebuild(shape, vals):
    def r(n):
        tag, x = n
        if tag == "t":
            return vals[x]
        if tag == "l":
            return [r(y) for y in x]
        if tag == "s":
            return {"slice": [r(y) for y in x]}
        if tag == "d":
            return {k: r(y) for k, y in x.items()}
        return x
    return {k: r(v) for k, v in shape.items()}


def _worker(task):
    idx, text, n_inputs, timeout_ms, use_cli = task
    t0 = time.time()
    ctx = z3.Context()
    s = z3.Solver(ctx=ctx)
    s.set("timeout", timeout_ms)
    try:
        s.from_string(text)
        r = s.check()
    except z3.Z3Exception as e:
        return idx, ("UNKNOWN", "z3", time.time() - t0, None, "z3 exception %s" % e)
    dt = time.time() - t0
    ver = "z3-%s" % z3.get_version_string()
    if r == z3.unsat:
        return idx, ("PROVED", ver, dt, None, "")
    if r == z3.sat:
        m = s.model()
        vals = {}
        for d in m.decls():
            nme = d.name()
            if nme.startswith("pyvc_in_"):
                vals[int(nme[8:])] = model_value(m, d())
        return idx, ("REFUTED", ver, dt, [vals.get(i) for i in range(n_inputs)], "sat")
    reason = s.reason_unknown()
    if use_cli:
        cli_ms = max(5000, timeout_ms // 2)
        uses_strings = "String" in text or "str." in text
        t1 = time.time()
        cmd = ["/usr/bin/cvc5", "--force-logic=ALL", "--tlimit=%d" % cli_ms] + (["--strings-exp"] if uses_strings else [])
        first, out = _run_cli(cmd, text, cli_ms / 1000.0)
        if first == "unsat":
            return idx, ("PROVED", "cvc5-1.0.3", time.time() - t1, None, "z3: unknown (%s)" % reason)
        t2 = time.time()
        first2, out2 = _run_cli(["/usr/bin/z3", "-T:%d" % max(1, cli_ms // 1000)], text, cli_ms / 1000.0)
        if first2 == "unsat":
            return idx, ("PROVED", "z3-4.8.12", time.time() - t2, None, "z3: unknown (%s)" % reason)
        if os.environ.get("PYVC_DUMP_UNKNOWN"):
            with open(os.path.join(os.environ["PYVC_DUMP_UNKNOWN"], "unknown_%d.smt2" % idx), "w") as f:
                f.write(text)
        fs = _finite_scope(text, n_inputs, cli_ms)
        if fs is not None:
            return idx, fs
        return idx, ("UNKNOWN", "z3+cvc5+z3-4.8", time.time() - t0, None,
                     "z3: unknown (%s); cvc5: %s; z3-4.8.12: %s" % (reason, first or out[:80], first2 or out2[:80]))
    return idx, ("UNKNOWN", ver, dt, None, "unknown (%s)" % reason)


def _finite_scope(text, n_inputs, budget_ms, scopes=(4, 6)):
    """Refutation only.  The negated obligation is re-checked with every uninterpreted sort replaced by an
    enumeration of k elements and every quantifier over those sorts expanded into a finite conjunction/disjunction.
    An uninterpreted sort may be interpreted by any non-empty set, so a model of the k-element instance is a model
    of the original query: `sat` is a genuine counter-model.  `unsat` or `unknown` here says nothing about the
    unrestricted obligation and is discarded."""
    import itertools
    import re
    if not re.search(r"\(declare-sort\s+(\|[^|]*\||[^\s()]+)\s+0\)", text):
        return None

    class TooBig(Exception):
        pass

    for k in scopes:
        def rep(m):
            srt = m.group(1)
            base = srt.strip("|")
            return "(declare-datatypes ((%s 0)) ((%s)))" % (srt, " ".join("(|%s_e%d|)" % (base, j) for j in range(k)))
        q = re.sub(r"\(declare-sort\s+(\|[^|]*\||[^\s()]+)\s+0\)", rep, text)
        t0 = time.time()
        ctx = z3.Context()
        s0 = z3.Solver(ctx=ctx)
        cache = {}
        budget = [200000]

        def consts(srt):
            return [srt.constructor(i)() for i in range(srt.num_constructors())]

        def expand(e):
            key = e.get_id()
            if key in cache:
                return cache[key][1]
            budget[0] -= 1
            if budget[0] < 0 or time.time() - t0 > budget_ms / 1000.0:
                raise TooBig()
            if z3.is_quantifier(e):
                srts = [e.var_sort(i) for i in range(e.num_vars())]
                if all(isinstance(x, z3.DatatypeSortRef) for x in srts):
                    body = e.body()
                    outs = [expand(z3.substitute_vars(body, *reversed(combo)))
                            for combo in itertools.product(*[consts(x) for x in srts])]
                    r = z3.And(outs) if e.is_forall() else z3.Or(outs)
                else:
                    r = e
            elif z3.is_app(e) and e.num_args() > 0:
                ch = e.children()
                nch = [expand(c) for c in ch]
                pairs = [(a, b) for a, b in zip(ch, nch) if not a.eq(b)]
                r = z3.substitute(e, *pairs) if pairs else e
            else:
                r = e
            cache[key] = (e, r)
            return r
        try:
            s0.from_string(q)
            s = z3.Solver(ctx=ctx)
            s.set("timeout", max(2000, budget_ms // len(scopes)))
            for a in s0.assertions():
                s.add(expand(a))
            r = s.check()
        except (z3.Z3Exception, TooBig, RecursionError):
            return None
        if r == z3.sat:
            m = s.model()
            vals = {}
            for d in m.decls():
                nme = d.name()
                if nme.startswith("pyvc_in_"):
                    vals[int(nme[8:])] = model_value(m, d())
            return ("REFUTED", "z3-%s finite-scope(%d)" % (z3.get_version_string(), k), time.time() - t0,
                    [vals.get(i) for i in range(n_inputs)],
                    "sat with every uninterpreted sort instantiated by %d elements (quantifiers expanded)" % k)
    return None


def discharge(obligations, timeout_ms=30000, use_cli=True, jobs=None):
    """Discharge in a process pool: each obligation is serialised to SMT-LIB2 (one query per path)."""
    import concurrent.futures
    todo = [ob for ob in obligations if ob.result is None]
    if not todo:
        return obligations
    tasks, shapes = [], []
    for i, ob in enumerate(todo):
        if z3.is_true(z3.simplify(ob.claim)):
            # literally true (e.g. a check on the concrete structure of the result): no query needed
            ob.result = Result("PROVED", "trivial (claim simplifies to true)", 0.0)
            shapes.append(None)
            tasks.append(None)
            continue
        flat, shape = _flatten_inputs(ob.inputs)
        s = z3.Solver()
        for a in ob.assumptions:
            s.add(a)
        s.add(z3.Not(ob.claim))
        for k, t in enumerate(flat):
            s.add(z3.Const("pyvc_in_%d" % k, t.sort()) == t)
        tasks.append((i, s.to_smt2(), len(flat), timeout_ms, use_cli))
        shapes.append(shape)
    tasks = [t for t in tasks if t is not None]
    jobs = jobs or int(os.environ.get("PYVC_JOBS", "0")) or min(16, os.cpu_count() or 1)
    if not tasks:
        return obligations
    if jobs <= 1 or len(tasks) == 1:
        results = [_worker(t) for t in tasks]
    else:
        with concurrent.futures.ProcessPoolExecutor(max_workers=jobs) as ex:
            results = list(ex.map(_worker, tasks, chunksize=1))
    for idx, (status, backend, secs, vals, out) in results:
        model = _rebuild(shapes[idx], vals) if vals is not None else None
        todo[idx].result = Result(status, backend, secs, model, out)
    return obligations


def satisfiable(assumptions, timeout_ms=5000):
    s = z3.Solver()
    s.set("timeout", timeout_ms)
    for a in assumptions:
        s.add(a)
    return s.check()
