"""Assumed contract of copy.deepcopy (CPython's documented memo protocol, DESIGN Appendix A.1), as an
executable model over pyvc values:
  * memo is keyed by id(); an object already in memo is returned from it;
  * an object whose __deepcopy__ attribute (instance attribute first, then the class's method) is not None
    is copied by calling it with memo;
  * otherwise a new object of the same class is created, REGISTERED in memo, and then its state
    (instance dictionary) is deep-copied entry by entry with the same memo;
  * atoms (None, numbers, strings, classes, functions, Enum members / opaque markers) are returned as they are.
"""
from pyvc import ops
from pyvc.builtins import IdVal, b_id
from pyvc.values import Ext, PyRaise, Unsupported, VBound, VClass, VDict, VFunc, VList, VObj, VSet, stub


def _memo_get(eng, memo, x):
    key = b_id(eng, x)
    for k, v in zip(memo.keys, memo.vals):
        if isinstance(k, IdVal) and k.obj is x:
            return True, v
    return False, None


def _memo_put(eng, memo, x, y):
    ops.setitem(eng, memo, b_id(eng, x), y)


@stub
def deepcopy(eng, x, memo=None):
    if memo is None:
        memo = VDict()
    if x is None or isinstance(x, (int, float, str, bool, VClass, VFunc)) or ops.is_sym(x) or (isinstance(x, Ext) and not getattr(x, "deep_copyable", False)):
        return x
    found, y = _memo_get(eng, memo, x)
    if found:
        return y
    if isinstance(x, VList):
        y = VList()
        _memo_put(eng, memo, x, y)
        for a in x.items:
            y.items.append(deepcopy(eng, a, memo))
        return y
    if isinstance(x, tuple):
        ys = tuple(deepcopy(eng, a, memo) for a in x)
        if all(a is b for a, b in zip(x, ys)):
            return x
        return ys
    if isinstance(x, VDict):
        y = VDict()
        if getattr(x, "ordered", False):
            y.ordered = True
        _memo_put(eng, memo, x, y)
        for k, v in zip(list(x.keys), list(x.vals)):
            ops.setitem(eng, y, deepcopy(eng, k, memo), deepcopy(eng, v, memo))
        return y
    if isinstance(x, VSet):
        y = VSet([deepcopy(eng, a, memo) for a in x.items])
        _memo_put(eng, memo, x, y)
        return y
    if isinstance(x, VObj):
        copier = eng.getattr(x, "__deepcopy__", None, None)
        if copier is not None:
            y = eng.call(copier, [memo], {})
        else:
            y = VObj(x.cls)
            _memo_put(eng, memo, x, y)
            for k, v in list(x.fields.items()):
                y.fields[k] = deepcopy(eng, v, memo)
        if y is not x:
            _memo_put(eng, memo, x, y)
        return y
    raise Unsupported("deepcopy of %r" % (type(x).__name__,))


def module():
    from .api_common import ModuleStub
    return ModuleStub("copy", {"deepcopy": deepcopy, "copy": stub(lambda eng, x: x)})
