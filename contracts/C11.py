"""C11 -- the DAE residual equals the Modelica meaning of the flat equations (pymoca-side kernels).

Functions under contract (real source, whole functions):
  Generator.exitExpression      operator dispatch: every operator of the statement reaches a CasADi
                                method that EXISTS (interface facts introspected from the installed
                                casadi on every run) and that denotes the Modelica operator
  Generator.exitIfExpression    fold = ite(c1, e1, ite(c2, e2, ... else)) for any number of branches
  Generator.exitIfEquation      same fold over equation blocks, first true branch wins
  Generator.exitEquation        residual = left - right
  ForLoop.__init__              loop values = Modelica's range {start + k*step <= stop}
CasADi values are opaque terms recording which method produced them; the numeric meaning of each
CasADi method is assumed (sampled by the bounded replay, which evaluates real residuals).
"""
import json
import os
import subprocess

import z3

from pyvc import ops
from pyvc.values import Ext, NoOp, PyRaise, Unsupported, VBound, VClass, VDict, VList, VObj, stub

from .api_common import CollectionsStub, ModuleStub
from .ast_common import AstFactory, base_modules

GEN = "pymoca.backends.casadi.generator"
_FACTS = None


def casadi_facts():
    """names that exist on casadi.MX in the installed package (never written by hand)"""
    global _FACTS
    if _FACTS is None:
        here = os.path.dirname(os.path.dirname(os.path.abspath(__file__)))
        out = subprocess.run([os.environ.get("PYVC_REPO_PYTHON", "/venv/bin/python"), os.path.join(here, "tools", "introspect_casadi.py")],
                             capture_output=True, text=True, timeout=120).stdout
        _FACTS = json.loads(out.strip().splitlines()[-1])
    return _FACTS


class MXT(Ext):
    """casadi.MX term: attribute lookup follows the introspected interface"""
    type_names = ("MX",)

    def __init__(self, kind, args=(), shape=(1, 1)):
        self.kind, self.args, self.shape = kind, tuple(args), shape

    def sym_getattr(self, eng, name):
        if name == "shape":
            return self.shape
        if name in ("size1", "size2"):
            return stub(lambda eng: self.shape[0 if name == "size1" else 1])
        if name == "T":
            return MXT("T", (self,), self.shape[::-1])
        if name not in casadi_facts()["mx_attributes"]:
            raise PyRaise(eng.make_exc("AttributeError", "'MX' object has no attribute '%s'" % name))
        me = self
        return stub(lambda eng, *a: MXT("method:" + name, (me,) + tuple(a), me.shape))

    def sym_unop(self, eng, op):
        return MXT("unary:" + op, (self,), self.shape)

    def sym_binop(self, eng, op, other, reflected):
        return MXT("binop:" + op, (other, self) if reflected else (self, other), self.shape)

    def sym_getitem(self, eng, key):
        return MXT("getitem", (self, key))

    def sym_eq(self, eng, other):
        return self is other

    def __repr__(self):
        return "MXT(%s)" % self.kind


def install(eng):
    base_modules(eng)
    mx = VClass("MX")
    mx.constructor = lambda eng, c, a, k: a[0] if isinstance(a[0], MXT) else MXT("const", (a[0],))
    fns = {}
    for nme in ("if_else", "mtimes", "vertcat", "transpose", "sum1", "fmin", "fmax"):
        fns[nme] = stub((lambda n: lambda eng, *a: MXT("ca." + n, a))(nme))
    cas = ModuleStub("casadi", dict(fns, MX=mx, DM=VClass("DM")))
    eng.ext_modules["casadi"] = cas
    eng.ext_modules["numpy"] = ModuleStub("numpy", {"arange": stub(lambda eng, a, b, s=1, dtype=None: Arange(a, b, s))})
    eng.ext_modules["pymoca.tree"] = ModuleStub("pymoca.tree", {"TreeListener": VClass("TreeListener"), "TreeWalker": VClass("TreeWalker"), "flatten": None})
    gm = eng.load_module(GEN)
    return gm


class Arange(Ext):
    """np.arange(a, b, s): assumed contract {a + k*s | k >= 0, a + k*s < b} for s > 0 (> b for s < 0)"""

    def __init__(self, a, b, s):
        self.a, self.b, self.s = a, b, s


# Modelica operator -> the CasADi operation that denotes it
BINARY = {"+": "method:__add__", "-": "method:__sub__", "/": "method:__truediv__", "^": "method:__pow__", ">": "method:__gt__",
          "<": "method:__lt__", "<=": "method:__le__", ">=": "method:__ge__", "==": "method:__eq__", "<>": "method:__ne__",
          "and": "method:__mul__", "or": "method:__add__", "min": "method:fmin", "max": "method:fmax",
          ".*": "method:__mul__", "./": "method:__truediv__", ".+": "method:__add__", ".-": "method:__sub__", ".^": "method:__pow__",
          }
# elementary functions pymoca translates through the MX method of the same name (asin/acos/atan/atan2 are
# not among them: CasADi spells them arcsin..., and pymoca rejects them with "Unknown function" -- a loud
# failure, outside the supported subset, not a wrong residual)
UNARY_FN = ["abs", "sin", "cos", "tan", "exp", "log", "sqrt", "sinh", "cosh", "tanh", "log10", "floor", "ceil", "sign"]


def gen_obj(eng, gm, operands):
    g = VObj(eng.module_global(gm, "Generator"), {"src": VDict(), "function_mode": (True, False), "for_loops": VList([])})
    terms = {}

    def get_mx(eng, args, kw):
        t = args[1]
        if t in terms:
            return terms[t]
        for o, mt in operands:
            if t is o:
                return mt
        raise Unsupported("get_mx of an unexpected node")
    eng.call_contracts["Generator.get_mx"] = get_mx
    return g


def h_operator_dispatch(eng):
    gm = install(eng)
    A = AstFactory(eng)
    f = eng.find_function(GEN, "Generator.exitExpression")
    cases = [("binary", op) for op in BINARY] + [("unary-fn", fn) for fn in UNARY_FN] + [("neg", "-"), ("pos", "+"), ("not", "not"), ("mtimes", "*")]
    kind, op = cases[eng.choice(len(cases))]
    eng.input("operator", op)
    eng.input("kind", kind)
    n = 1 if kind in ("unary-fn", "neg", "pos", "not") else 2
    if kind == "mtimes":
        n = 2 + eng.choice(2)
    nodes = [A.ref("o%d" % i) for i in range(n)]
    terms = [MXT("operand%d" % i) for i in range(n)]
    g = gen_obj(eng, gm, list(zip(nodes, terms)))
    is_fn = kind == "unary-fn" or op in ("min", "max")
    tree = A.expr(A.ref(op) if is_fn else op, *nodes)
    try:
        eng.call(VBound(f, g), [tree], {})
    except PyRaise as e:
        eng.cover("op.raises")
        # (P) every operator of the statement is translated; in particular the CasADi method exists
        eng.prove("op.every_listed_operator_is_translated", False, exc=repr(e.exc), operator=op)
        return
    eng.cover("op.done")
    eng.prove("op.every_listed_operator_is_translated", True)
    r = ops.getitem(eng, g.fields["src"], tree)
    if kind == "binary":
        ok = isinstance(r, MXT) and r.kind == BINARY[op] and r.args[0] is terms[0] and r.args[1] is terms[1]
        eng.prove("op.binary_denotes_modelica_operator_on_left_right", z3.BoolVal(bool(ok)), got=repr(r), operator=op)
    elif kind == "unary-fn":
        want = "method:" + {"abs": "fabs"}.get(op, op)
        ok = isinstance(r, MXT) and r.kind == want and r.args[0] is terms[0] and len(r.args) == 1
        eng.prove("op.elementary_function_of_operand", z3.BoolVal(bool(ok)), got=repr(r), operator=op)
    elif kind == "neg":
        eng.prove("op.unary_minus", z3.BoolVal(isinstance(r, MXT) and r.kind == "unary:USub" and r.args[0] is terms[0]))
    elif kind == "pos":
        eng.prove("op.unary_plus", z3.BoolVal(r is terms[0]))
    elif kind == "not":
        ok = isinstance(r, MXT) and r.kind == "ca.if_else" and r.args[0] is terms[0] and r.args[1] == 0 and r.args[2] == 1
        eng.prove("op.not_is_one_minus_truth", z3.BoolVal(bool(ok)))
    else:
        cur, ok = r, True
        for t in reversed(terms[1:]):
            ok = ok and isinstance(cur, MXT) and cur.kind == "ca.mtimes" and cur.args[1] is t
            cur = cur.args[0] if ok else None
        ok = ok and cur is terms[0]
        eng.prove("op.matrix_product_left_associated_in_order", z3.BoolVal(bool(ok)))


def expected_ite(conds, exprs):
    """ite(c1, e1, ite(c2, e2, ... else)) as nested tuples"""
    out = exprs[-1]
    for c, e in zip(reversed(conds), reversed(exprs[:-1])):
        out = ("ite", c, e, out)
    return out


def shape_of(r):
    if isinstance(r, MXT) and r.kind == "ca.if_else":
        return ("ite", r.args[0], shape_of(r.args[1]), shape_of(r.args[2]))
    if isinstance(r, MXT) and r.kind == "ca.vertcat" and len(r.args) == 1:
        return r.args[0]
    return r


def h_if_expression(eng):
    gm = install(eng)
    A = AstFactory(eng)
    k = 1 + eng.choice(4)
    eng.input("branches_with_condition", k)
    cn = [A.ref("c%d" % i) for i in range(k)]
    en = [A.ref("e%d" % i) for i in range(k + 1)]
    ct = [MXT("cond%d" % i) for i in range(k)]
    et = [MXT("expr%d" % i) for i in range(k + 1)]
    g = gen_obj(eng, gm, list(zip(cn + en, ct + et)))
    tree = VObj(VClass("IfExpression"), {"conditions": VList(cn), "expressions": VList(en)})
    eng.call(VBound(eng.find_function(GEN, "Generator.exitIfExpression"), g), [tree], {})
    eng.cover("ifexpr.done")
    r = ops.getitem(eng, g.fields["src"], tree)
    eng.prove("ifexpr.first_true_branch_wins", z3.BoolVal(shape_of(r) == expected_ite(ct, et)))


def h_if_equation(eng):
    gm = install(eng)
    A = AstFactory(eng)
    k = 1 + eng.choice(3)
    eng.input("branches_with_condition", k)
    cn = [A.ref("c%d" % i) for i in range(k)] + [True]
    blocks, bt = [], []
    pairs = []
    for i in range(k + 1):
        e = A.ref("b%d" % i)
        t = MXT("block%d" % i)
        blocks.append(VList([e]))
        bt.append(t)
        pairs.append((e, t))
    ct = [MXT("cond%d" % i) for i in range(k)]
    g = gen_obj(eng, gm, pairs + list(zip(cn[:-1], ct)))
    tree = VObj(VClass("IfEquation"), {"conditions": VList(cn), "blocks": VList(blocks)})
    eng.call(VBound(eng.find_function(GEN, "Generator.exitIfEquation"), g), [tree], {})
    eng.cover("ifeq.done")
    r = ops.getitem(eng, g.fields["src"], tree)
    eng.prove("ifeq.first_true_branch_wins", z3.BoolVal(shape_of(r) == expected_ite(ct, bt)))


def h_equation(eng):
    gm = install(eng)
    A = AstFactory(eng)
    l, r = A.ref("l"), A.ref("r")
    lt, rt = MXT("left", shape=(3, 1)), MXT("right", shape=(3, 1))
    g = gen_obj(eng, gm, [(l, lt), (r, rt)])
    g.fields["root"] = VObj(VClass("Tree"), {"classes": VDict()})
    tree = A.new("Equation", left=l, right=r)
    eng.call(VBound(eng.find_function(GEN, "Generator.exitEquation"), g), [tree], {})
    eng.cover("eq.done")
    res = ops.getitem(eng, g.fields["src"], tree)
    eng.prove("eq.residual_is_left_minus_right", z3.BoolVal(isinstance(res, MXT) and res.kind == "binop:Sub" and res.args[0] is lt and res.args[1] is rt))


def h_for_range(eng):
    gm = install(eng)
    fl_cls = eng.module_global(gm, "ForLoop")
    eng.find_function(GEN, "ForLoop.__init__")
    start = eng.input("start", eng.fresh_int("start"))
    step = eng.input("step", eng.fresh_int("step"))
    stop = eng.input("stop", eng.fresh_int("stop"))
    eng.assume(step != 0)
    A = AstFactory(eng)
    stop_node = A.ref("n")
    rng = VObj(VClass("Slice"), {"start": A.prim(start), "step": A.prim(step), "stop": stop_node})
    idx = VObj(VClass("ForIndex"), {"name": "i", "expression": rng})
    tree = VObj(VClass("ForEquation"), {"indices": VList([idx])})
    gen = VObj(VClass("GeneratorStub"), {})
    gen.cls.attrs["get_integer"] = _get_integer(stop_node, stop)
    eng.call_contracts["_new_mx"] = lambda eng, args, kw: MXT("loopvar:" + str(args[0]))
    loop = eng.call(fl_cls, [gen, tree], {})
    eng.cover("range.done")
    vals = loop.fields.get("values")
    if not isinstance(vals, Arange):
        eng.prove("range.values_are_an_arange", False)
        return
    a, b, s = ops.to_arith(vals.a), ops.to_arith(vals.b), ops.to_arith(vals.s)
    x = z3.Int("xr")
    # (P) x is iterated  <=>  x = start + k*step for some k >= 0 and x does not pass stop
    in_arange = z3.If(s > 0, x < b, x > b)
    in_modelica = z3.If(step > 0, x <= stop, x >= stop)
    eng.prove("range.first_value_and_step", z3.And(a == start, s == step))
    eng.prove("range.upper_end_is_modelica_stop", z3.ForAll([x], in_arange == in_modelica))
    eng.prove("range.loop_variable_named", z3.BoolVal(loop.fields.get("name") == "i"))


def _get_integer(node, value):
    def gi(eng, selfobj, t):
        if t is node:
            return value
        raise Unsupported("get_integer of unexpected node")
    gi._pyvc_method = True
    return gi


HARNESSES = [("Generator.exitExpression/operators", h_operator_dispatch), ("Generator.exitIfExpression", h_if_expression),
             ("Generator.exitIfEquation", h_if_equation), ("Generator.exitEquation", h_equation), ("ForLoop.__init__", h_for_range)]
EXPECTED_COVER = {"op.done", "ifexpr.done", "ifeq.done", "eq.done", "range.done"}
BOUNDED = True
LEVEL = "proof"
TRUSTED = ["pyvc VC generator", "z3 5.1.0",
           "numeric meaning of the CasADi operations (__add__, __truediv__, fmin, if_else(c, a, b, True), mtimes, ...): assumed, sampled by the bounded replay",
           "np.arange(a, b, s) = {a + k*s | k >= 0} below b (above b for s < 0)",
           "interface facts (which attributes casadi.MX has) are read from the installed package by tools/introspect_casadi.py on every run"]
ASSUMPTIONS = [
    "operator list of the statement: + - / ^ (and element-wise forms), * as matrix product, relations incl. <>, not/and/or, min/max/abs, elementary functions; 1-4 if branches; all integer loop bounds and non-zero steps",
    "arrays / matrix products' numeric layout, interpolation, user functions with algorithm sections (get_function) and for-loop mapping are outside the contracts; the replay samples for-loops and functions",
    "shape adaptation branches of exitEquation (function-output truncation, transposition) are not under contract (equal shapes assumed)",
]
EXPLANATION = "Dispatch table against introspected CasADi interface, if-folds, residual sign, loop range."
MANIFEST = {
    "category": "proof",
    "text": "exitExpression is executed for every operator of the statement against the interface of the installed CasADi (introspected each run): the dispatch reaches an existing method that denotes the Modelica operator on the operands in order (/, <>, and/or, min/max/abs, elementary functions, matrix product). The if-expression and if-equation folds give ite(c1,e1,ite(c2,e2,...else)) for 1-4 conditions (first true branch wins), the residual is left - right, and ForLoop's values are exactly Modelica's start:step:stop range for all integers. A bounded replay evaluates real residuals per operator, branch pattern and range.",
    "note": "CasADi's numeric semantics are assumed; user functions, interpolation and array layout are outside the contracts.",
    "technique": "contract-based deductive verification: symbolic execution with provenance-recording CasADi terms and introspected interface facts, integer VCs for the loop range, z3",
}
