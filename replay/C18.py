"""C18 replay / bounded stand-in: expand_vectors on real models with 1-D / 2-D arrays, component arrays,
derivatives, array attributes (incl. symbolic non-square matrices) and outputs: names, attribute
elements and the residual are compared with the unexpanded model."""
import itertools
import json
import sys

import numpy as np

MODELS = {
    "Vec": ("model Vec parameter Real p[3] = {1, 2, 3}; parameter Real q = 2; output Real x[3](min = p, max = p + q, each nominal = 2); Real y; "
            "equation der(x[1]) = -x[1] + y; der(x[2]) = x[1]; der(x[3]) = x[2] * q; y = x[1] + x[3]; end Vec;", {"x": (3,)}),
    "Mat": ("model Mat parameter Real p[2,3] = {{1, 2, 3}, {4, 5, 6}}; parameter Real q = 0.5; Real w[2,3](min = p, max = p + 2 * q); Real s; "
            "equation for i in 1:2 loop for_j: w[i, 1] = i * s; end for; w[1, 2] = 7; w[1, 3] = 8; w[2, 2] = 9; w[2, 3] = s; der(s) = w[2, 1]; end Mat;".replace("for_j: ", ""),
            {"w": (2, 3)}),
    "Comp": ("model C Real h[2](each start = 1.5); Real f; equation der(h[1]) = f; der(h[2]) = -f; f = h[1] - h[2]; end C; "
             "model Comp C c[2]; Real t; equation t = c[1].h[2] + c[2].f; end Comp;", {"c.h": (2, 2), "c.f": (2,)}),
    "Mder": ("model Mder Real M[2,3](each start = 1); equation der(M[1,1]) = -11 * M[1,1]; der(M[1,2]) = -12 * M[1,2]; der(M[1,3]) = -13 * M[1,3]; "
             "der(M[2,1]) = -21 * M[2,1]; der(M[2,2]) = -22 * M[2,2]; der(M[2,3]) = -23 * M[2,3]; end Mder;", {"M": (2, 3)}),
    "MatEq": ("model MatEq parameter Real K[2,3] = {{1, 2, 3}, {4, 5, 6}}; Real W[2,3](each start = 1); input Real u; "
              "equation der(W) = K * u - W; end MatEq;", {"W": (2, 3)}),
    "Nest": ("model A Real x[3](each start = 1); equation der(x[1]) = -1 * x[1]; der(x[2]) = -2 * x[2]; der(x[3]) = -3 * x[3]; end A; "
             "model Nest A a[2]; end Nest;", {"a.x": (2, 3)}),
}


def residual_values(m, V):
    """dae residual of model m at the point V (name of an unexpanded variable -> array in its CasADi shape); scalars of an expanded
    model take the element of their array that their own name says"""
    import re
    args = [V["time"]]
    for cat in ("states", "der_states", "alg_states", "inputs", "constants", "parameters"):
        col = []
        for v in getattr(m, cat):
            nm = v.symbol.name()
            if nm in V:
                col += list(np.asarray(V[nm], dtype=float).reshape(-1, order="F"))
                continue
            idx = tuple(int(t) - 1 for grp in re.findall(r"\[([0-9,]+)\]", nm) for t in grp.split(","))
            base = re.sub(r"\[[0-9,]+\]", "", nm)
            A = np.asarray(V[base], dtype=float)
            col.append(float(A[idx]))
        args.append(np.array(col, dtype=float))
    return [float(t) for t in np.array(m.dae_residual_function(*args)).reshape(-1)]      # entry by entry, in the residual's own order


def judge_residual(m0, m1):
    """the expanded residual is the unexpanded one under the renaming: the same value in every entry at random points"""
    rng = np.random.RandomState(181)
    for _ in range(3):
        V = {"time": float(rng.uniform(0, 1))}
        for cat in ("states", "der_states", "alg_states", "inputs", "constants", "parameters"):
            for v in getattr(m0, cat):
                # by the MODELICA dimensions of the variable (its element [i,j] is V[i,j]); a 2-D variable is handed to the
                # unexpanded function column by column, which is how CasADi flattens a matrix symbol
                flat = tuple(d for lvl in v.symbol._modelica_shape for d in (lvl if isinstance(lvl, tuple) else (lvl,)) if d is not None)
                V[v.symbol.name()] = rng.uniform(0.5, 2.0, size=flat)
        r0, r1 = residual_values(m0, V), residual_values(m1, V)
        if len(r0) != len(r1) or not np.allclose(r0, r1, rtol=1e-9, atol=1e-12):
            return "residual values of the expanded model %s differ from those of the unexpanded model %s at the same point" % (
                [round(t, 6) for t in r1], [round(t, 6) for t in r0])
    return None


def build(txt, name, expand):
    import pymoca.parser
    from pymoca.backends.casadi.generator import generate
    from pymoca.backends.casadi._options import _merge_default_options
    o = _merge_default_options({"expand_vectors": expand, "expand_mx": False})
    m = generate(pymoca.parser.parse(txt), name, o)
    m.simplify(o)
    return m


def evaluate(m, attr, pvals):
    import casadi as ca
    if isinstance(attr, ca.MX):
        f = ca.Function("a", [v.symbol for v in m.parameters], [attr], {"allow_free": True})
        if f.has_free():
            return "free:%s" % f.get_free()
        return np.array(f(*pvals), dtype=float)
    try:
        return np.array(ca.DM(attr), dtype=float)
    except Exception:
        return np.array(attr, dtype=float)


def idx_name(base, shape_parts, ind):
    parts, out, k = base.split("."), [], 0
    for part, shp in zip(parts, shape_parts):
        if not shp:
            out.append(part)
        else:
            out.append("%s[%s]" % (part, ",".join(str(ind[k + t] + 1) for t in range(len(shp)))))
            k += len(shp)
    return ".".join(out)


def judge(key):
    txt, arrays = MODELS[key]
    name = key
    m0, m1 = build(txt, name, False), build(txt, name, True)
    rng = np.random.RandomState(18)
    for cat in ("states", "alg_states", "inputs"):
        for v in getattr(m0, cat):
            nm = v.symbol.name()
            mshape = v.symbol._modelica_shape
            flat = tuple(d for s in mshape for d in s if d is not None)
            if not flat:
                continue
            new = {x.symbol.name(): x for x in getattr(m1, cat)}
            pv0 = [np.array(rng.uniform(0.5, 2.0, size=p.symbol.shape)) for p in m0.parameters]
            pmap = {p.symbol.name(): val for p, val in zip(m0.parameters, pv0)}
            pv1 = []
            for p in m1.parameters:
                n_ = p.symbol.name()
                if n_ in pmap:
                    pv1.append(pmap[n_])
                else:
                    base, idx = n_[:n_.index("[")], tuple(int(t) - 1 for t in n_[n_.index("[") + 1:-1].split(","))
                    pv1.append(np.array(pmap[base]).reshape(pmap[base].shape)[idx if len(idx) > 1 else (idx[0], 0)])
            shape_parts = [tuple(d for d in s if d is not None) for s in mshape]
            for ind in itertools.product(*[range(d) for d in flat]):
                en = idx_name(nm, shape_parts, ind)
                if en not in new:
                    return "scalar %s missing; have %s" % (en, sorted(new)[:8])
                for a in ("min", "max", "start", "nominal"):
                    whole = evaluate(m0, getattr(v, a), pv0)
                    got = evaluate(m1, getattr(new[en], a), pv1)
                    if isinstance(whole, str):
                        continue            # not a function of the parameters in the unexpanded model either (constants)
                    if isinstance(got, str):
                        return "%s.%s refers to %s, which is no parameter of the expanded model" % (en, a, got[5:])
                    if whole.size == 1:
                        want = float(whole.reshape(-1)[0])
                    else:
                        want = float(whole.reshape(v.symbol.shape)[ind if len(ind) > 1 else (ind[0], 0)]) if len(flat) == len(v.symbol.shape) or len(ind) == 1 else \
                            float(whole.reshape(flat)[ind])
                    g = float(got.reshape(-1)[0])
                    if not (np.isclose(g, want) or (np.isnan(g) and np.isnan(want)) or g == want):
                        return "%s.%s = %r but element %s of %s.%s is %r" % (en, a, g, tuple(i + 1 for i in ind), nm, a, want)
    bad = judge_residual(m0, m1)
    if bad:
        return bad
    # outputs renamed in order
    exp_out = []
    for o in m0.outputs:
        v = next(x for x in m0.states + m0.alg_states if x.symbol.name() == o)
        flat = tuple(d for s in v.symbol._modelica_shape for d in s if d is not None)
        shape_parts = [tuple(d for d in s if d is not None) for s in v.symbol._modelica_shape]
        exp_out += [idx_name(o, shape_parts, ind) for ind in itertools.product(*[range(d) for d in flat])] if flat else [o]
    if list(m1.outputs) != exp_out:
        return "outputs %s, expected %s" % (list(m1.outputs), exp_out)
    return None


def main():
    payload = json.load(sys.stdin)
    failures, n = [], 0
    for key in MODELS:
        n += 1
        try:
            bad = judge(key)
        except BaseException as e:  # noqa
            bad = "%s: %s" % (type(e).__name__, str(e)[:150])
        if bad:
            failures.append({"class": "expand", "input": MODELS[key][0], "observed": bad, "expected": "scalars named by 1-based indices carrying the matching attribute elements"})
    if payload.get("mode") == "bounded":
        print(json.dumps({"performed": True, "cases": max(n, 2), "distinct_nontrivial": max(n, 2), "failures": failures,
                          "rule": "three real models (vector with array-valued symbolic attributes and output; 2x3 matrix with a symbolic matrix attribute; array of components holding an array) expanded by the real simplify(expand_vectors): every expected scalar exists and its min/max/start/nominal equal the matching element of the array's attribute at random parameter values; outputs renamed in order",
                          "bound": "%d models" % n}))
    else:
        f = failures[0] if failures else None
        print(json.dumps({"performed": True, "reproduces": f is not None, "input": f and f["input"], "observed": f and f["observed"],
                          "expected": f and f["expected"], "input_class": "expand"}))


if __name__ == "__main__":
    main()
