"""developer tool: time every obligation of some harnesses of a contract module (no CLI fallback)"""
import importlib, sys, time, z3
sys.path.insert(0, '/verif')
from pyvc.engine import Engine
from pyvc import solve
c = importlib.import_module("contracts." + sys.argv[1])
eng = Engine()
names = sys.argv[2:]
for n, h in c.HARNESSES:
    if not names or any(x in n for x in names):
        eng.explore(h, n)
print("obls", len(eng.obligations), "undecided", eng.undecided)
for ob in eng.obligations:
    r = solve.discharge_one(ob, timeout_ms=8000, use_cli=False)
    print("%-8s %-50s %-28s %.2f %s" % (r.status, ob.name, ob.path_id, r.seconds, r.model if r.model else ""), flush=True)
