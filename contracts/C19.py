"""C19 -- cached models equal fresh compiles: what load_model rebuilds from what save_model stored.

Functions under contract (real source): load_model (whole function, the reconstruction part),
Variable.from_dict, Variable.to_dict (round trip).
Decided here: every stored list is restored in the same order with the same names, shapes, Python
types, aliases and non-MX attributes; outputs / delay states / alias relation / string lists and
the four functions are the stored objects; and ROW CORRESPONDENCE: an MX attribute of variable i
is read from rows [sum of numel of the variables before i, + numel(i)) of the metadata matrix, in
the attribute's column.  Shapes (rows, cols of every variable) are symbolic integers.
"""
import z3

from pyvc import ops
from pyvc.values import Ext, PyRaise, Unsupported, VBound, VClass, VDict, VList, VObj, VSlice

from . import api_common as A

MOD = A.MOD


def h_reconstruction(eng):
    w = A.make_world(eng, with_db=True, minimal_env=True)
    # an acceptable cache: fresh, same version and options (C20 decides acceptance itself)
    eng.assume(w.cached_version == w.current_version)
    eng.assume(z3.And(w.opt_cached == w.opt_now, w.codegen_cached == w.codegen, z3.Not(w.cache_absent)))
    for path, mt in w.mtimes.items():
        # (time stamps are seconds since the epoch: non-negative.  That an acceptable cache IS accepted is more than C19 states --
        # a refused cache is recompiled -- so this harness does not insist on it for time stamps no file system hands out)
        eng.assume(z3.And(mt <= w.cache_mtime, mt >= 0))
    out, m, exc = A.run_load(eng, w)
    if out == "raises":
        # only the OS check of code-generated libraries may still refuse
        eng.prove("reconstruct.valid_cache_loads", z3.BoolVal(m == "InvalidCacheError" and w.library_os != w.os_name), exc=m)
        return
    eng.cover("reconstruct.returns")
    # ---- lists restored in order
    for key in A.CATEGORIES + ["der_states"]:
        got = m.fields.get(key)
        dicts = w.var_dicts[key]
        ok = isinstance(got, VList) and len(got.items) == len(dicts)
        eng.prove("reconstruct.%s.same_length" % key, z3.BoolVal(bool(ok)))
        if not ok:
            continue
        for k, (v, d) in enumerate(zip(got.items, dicts)):
            dget = lambda name: d.vals[d.keys.index(name)]
            sym = v.fields.get("symbol")
            okv = isinstance(sym, A.MXStub) and sym.label == dget("name")
            eng.prove("reconstruct.%s.names_in_order" % key, z3.BoolVal(bool(okv)))
            if isinstance(sym, A.MXStub):
                eng.prove("reconstruct.%s.shape" % key, z3.And(ops.to_arith(sym.shape[0]) == dget("shape")[0],
                                                               ops.to_arith(sym.shape[1]) == dget("shape")[1]))
            eng.prove("reconstruct.%s.python_type_and_aliases" % key,
                      z3.BoolVal(v.fields.get("python_type") is dget("python_type") and v.fields.get("aliases") is dget("aliases")))
            for j, a in enumerate(A.ATTRS):
                here = w.dep_pos == (key, k, j)
                val = v.fields.get(a)
                if not here:
                    eng.prove("reconstruct.%s.plain_attributes_kept" % key, z3.BoolVal(val is dget(a)))
                    continue
                # ---- row correspondence at the symbolic dependency position
                n1, n2 = w.numel[(key, k)]
                offset = sum((w.numel[(key, q)][0] * w.numel[(key, q)][1] for q in range(k)), z3.IntVal(0))
                code = w.dep_code
                del ROWMAJOR[:]
                sel = selection_of(val)
                if sel is None:
                    eng.prove("reconstruct.row.not_mx_attribute_kept", z3.And(code == 0, z3.BoolVal(val is dget(a))))
                    continue
                eng.prove("reconstruct.row.matrix_attribute_elements_return_to_their_positions",
                          z3.And([z3.Or(ops.to_arith(sh[0]) == 1, ops.to_arith(sh[1]) == 1) if len(sh) == 2 else z3.BoolVal(True) for sh in ROWMAJOR] + [z3.BoolVal(True)]))
                mat, rows, col = sel
                want_call = 1 if True else 2
                eng.prove("reconstruct.row.source_matrix", z3.BoolVal(
                    isinstance(mat, A.Matrix) and mat.label.endswith("." + key)))
                # dependent attributes come from the evaluation at the parameter vector (first call),
                # independent ones from the evaluation at NaN (second call)
                eng.prove("reconstruct.row.dependent_vs_independent_evaluation", z3.If(
                    code == 1, z3.BoolVal("#1." in mat.label), z3.And(code == 2, z3.BoolVal("#2." in mat.label))))
                eng.prove("reconstruct.row.column_is_attribute", ops.to_arith(col) == j)
                if isinstance(rows, VSlice):
                    lo = ops.to_arith(rows.start if rows.start is not None else 0)
                    hi = ops.to_arith(rows.stop)
                    eng.prove("reconstruct.row.rows_are_the_variables_own", z3.And(lo == offset, hi == offset + n1 * n2,
                                                                                   z3.BoolVal(rows.step in (None, 1))))
                else:
                    r = ops.to_arith(rows)
                    eng.prove("reconstruct.row.rows_are_the_variables_own", z3.And(r == offset, n1 * n2 == 1))
    # ---- other stored objects
    db = w.db
    dbget = lambda name: db.vals[db.keys.index(name)]
    for name in ("outputs", "delay_states", "alias_relation", "string_constants", "string_parameters"):
        eng.prove("reconstruct.%s_is_stored_object" % name, z3.BoolVal(m.fields.get(name) is dbget(name)))
    for o in ("dae_residual", "initial_residual", "variable_metadata", "delay_arguments"):
        f = m.fields.get("_%s_function" % o)
        if w.as_lib:
            eng.prove("reconstruct.functions", z3.BoolVal(isinstance(f, A.FunctionStub) and f.label == "external:" + o))
        else:
            eng.prove("reconstruct.functions", z3.BoolVal(f is w.functions[o]))


def selection_of(val):
    """unwrap ca.MX(...) / ca.reshape(...) around a metadata selection"""
    seen = 0
    while isinstance(val, A.MXStub) and val.origin is not None and seen < 6:
        seen += 1
        if val.origin[0] == "select":
            return val.origin[1], val.origin[2], val.origin[3]
        if val.origin[0] in ("mx", "reshape"):
            val = val.origin[1]
            continue
        if val.origin[0] == "reshape-rowmajor":
            ROWMAJOR.append(val.origin[2])
            val = val.origin[1]
            continue
        break
    return None


ROWMAJOR = []        # shapes that were restored with a row-major reshape on the way (filled by selection_of, read by its caller)


def h_variable_roundtrip(eng):
    """Variable.from_dict(Variable.to_dict(v)) restores name, shape, Python type, aliases and every
    non-MX attribute; an MX attribute is stored as None (filled from the metadata function)"""
    w = A.make_world(eng, with_db=False)
    A.install(eng, w)
    mm = eng.load_module("pymoca.backends.casadi.model")
    dv = eng.module_global(mm, "_DefaultValue")
    dv.constructor = lambda eng, c, a, k: VObj(c, {"value": a[0] if a else 0})
    vcls = eng.module_global(mm, "Variable")
    to_dict = eng.find_function("pymoca.backends.casadi.model", "Variable.to_dict")
    eng.find_function("pymoca.backends.casadi.model", "Variable.from_dict")
    n1, n2 = eng.input("rows", eng.fresh_int("n1")), eng.input("cols", eng.fresh_int("n2"))
    eng.assume(z3.And(n1 >= 1, n2 >= 1))
    sym = A.MXStub("v", (n1, n2), origin=("sym",))
    pytype, aliases = VClass("int"), A.Marker("aliases")
    v = eng.call(vcls, [sym, pytype, aliases], {})
    mx_attr = eng.choice(len(A.ATTRS) + 1)
    vals = {}
    for j, a in enumerate(A.ATTRS):
        vals[a] = A.MXStub("attr_" + a) if j == mx_attr else A.Marker("plain_" + a)
        v.fields[a] = vals[a]
    d = eng.call(VBound(to_dict, v), [], {})
    v2 = eng.call(eng.getattr(vcls, "from_dict"), [d], {})
    eng.cover("roundtrip.returns")
    s2 = v2.fields.get("symbol")
    eng.prove("roundtrip.name", z3.BoolVal(isinstance(s2, A.MXStub) and s2.label == "v"))
    if isinstance(s2, A.MXStub):
        eng.prove("roundtrip.shape", z3.And(ops.to_arith(s2.shape[0]) == n1, ops.to_arith(s2.shape[1]) == n2))
    eng.prove("roundtrip.python_type", z3.BoolVal(v2.fields.get("python_type") is pytype))
    eng.prove("roundtrip.aliases", z3.BoolVal(v2.fields.get("aliases") is aliases))
    for j, a in enumerate(A.ATTRS):
        if j == mx_attr:
            eng.prove("roundtrip.mx_attribute_left_to_metadata", z3.BoolVal(v2.fields.get(a) is None))
        else:
            eng.prove("roundtrip.plain_attribute", z3.BoolVal(v2.fields.get(a) is vals[a]))


def _all_symbols_slice(fn):
    """statements of the `if model.delay_states:` block that build the list `all_symbols`"""
    import ast
    blk = next(n for n in ast.walk(fn) if isinstance(n, ast.If) and isinstance(n.test, ast.Attribute)
               and n.test.attr == "delay_states")

    def touches(st):
        for n in ast.walk(st):
            if isinstance(n, ast.Name) and n.id == "all_symbols" and isinstance(n.ctx, ast.Store):
                return True
            if isinstance(n, ast.Call) and isinstance(n.func, ast.Attribute) and isinstance(n.func.value, ast.Name) \
                    and n.func.value.id == "all_symbols" and n.func.attr in ("extend", "append", "insert"):
                return True
        return False
    deps = [st for st in blk.body if touches(st)]
    # plus simple assignments of names those statements read (e.g. a list of category names)
    need = {n.id for st in deps for n in ast.walk(st) if isinstance(n, ast.Name) and isinstance(n.ctx, ast.Load)}
    pre = [st for st in fn.body if isinstance(st, ast.Assign) and all(isinstance(t, ast.Name) and t.id in need for t in st.targets)
           and isinstance(st.value, (ast.List, ast.Tuple))]
    inner = []
    for st in ast.walk(fn):
        if isinstance(st, ast.With):
            inner += [x for x in st.body if isinstance(x, ast.Assign) and all(isinstance(t, ast.Name) and t.id in need for t in x.targets)
                      and isinstance(x.value, (ast.List, ast.Tuple))]
    return pre + inner + deps


def h_delay_symbol_order(eng):
    """save_model stores delay-duration dependencies as indices into `all_symbols`; load_model
    resolves them against its own `all_symbols`: both lists must enumerate the same symbols in the
    same order (time, states, der_states, alg_states, inputs, constants, parameters)"""
    w = A.make_world(eng, with_db=False, minimal_env=True)
    A.install(eng, w)
    cats = ["states", "der_states", "alg_states", "inputs", "constants", "parameters"]
    counts = {c: 1 + (i % 2) for i, c in enumerate(cats)}
    model = VObj(VClass("Model"), {"time": A.MXStub("time"), "delay_states": VList(["d"])})
    for c in cats:
        model.fields[c] = VList([VObj(VClass("Variable"), {"symbol": A.MXStub("%s_%d" % (c, i))}) for i in range(counts[c])])
    model.cls.attrs["_symbols"] = _symbols_method
    seqs = {}
    for fname in ("save_model", "load_model"):
        fr = eng.exec_fragment(MOD, fname, _all_symbols_slice, {"model": model}, label="all_symbols")
        lst = fr.locals.get("all_symbols")
        seqs[fname] = [x.label if isinstance(x, A.MXStub) else repr(x) for x in eng.iterate(lst)]
    eng.cover("delayorder.done")
    want = ["time"] + ["%s_%d" % (c, i) for c in cats for i in range(counts[c])]
    eng.prove("delay.save_and_load_enumerate_symbols_in_the_same_order", z3.BoolVal(seqs["save_model"] == seqs["load_model"]),
              save=seqs["save_model"], load=seqs["load_model"])
    eng.prove("delay.symbol_order_is_the_function_argument_order", z3.BoolVal(seqs["load_model"] == want))


def h_save_load_roundtrip(eng):
    """load_model(what save_model wrote) -- both REAL functions, composed: every list of the model comes back with the same names in
    the same order, shapes, Python types, aliases and plain attributes; an MX-valued attribute is classified by save_model (depends on
    the parameters / does not) and read back by load_model from the matching evaluation of the metadata function, from the variable's
    own rows; outputs, delay states, alias relation, string lists and the four functions are the model's own."""
    w = A.make_world(eng, with_db=False, minimal_env=True)
    A.install(eng, w)
    shapes = [{"states": 2, "der_states": 2, "parameters": 1}, {"alg_states": 1, "inputs": 2, "constants": 1}, {"parameters": 2, "states": 1, "der_states": 1}][eng.choice(3)]
    eng.input("variables_per_category", shapes)
    # the attribute that is an expression sits on a variable of one of the five metadata categories -- or on a DERIVATIVE variable
    # (alias detection makes der(x) the canonical variable of an algebraic v = der(x) and hands it v's min / max / nominal)
    cats = A.CATEGORIES + ([] if getattr(eng, "roundtrip_without_derivative_attributes", False) else ["der_states"])
    positions = [(k, i, a) for k in cats for i in range(shapes.get(k, 0)) for a in ("max", "start")]
    key, idx, attr = positions[eng.choice(len(positions))]
    kind = ["dependent", "independent", "constant"][eng.choice(3)]
    eng.input("mx_attribute", {"category": key, "variable": idx, "attribute": attr, "kind": kind})
    model, objs = A.make_model(eng, shapes, mx_attr=(key, idx, attr, kind))
    opts = w.current_options
    codegen = eng.branch(ops.to_z3(w.codegen))
    # with code generation the REAL _codegen_model runs on a recording tool chain; library files of an earlier save (whatever its
    # options were) may already lie in the folder, older or newer than the sources
    rec = A.run_save(eng, w, model, opts, real_codegen=codegen)
    if rec["raised"] is not None or len(rec["dumps"]) != 1:
        eng.prove("roundtrip2.save_completes", False, raised=rec["raised"])
        return
    w.db, w.pickle_outcome = rec["dumps"][0][0], None
    eng.assume(z3.Not(w.cache_absent))
    for path, mt in w.mtimes.items():
        eng.assume(z3.And(mt <= w.cache_mtime, mt >= 0))
    out, m, exc = A.run_load(eng, w)
    if out == "raises":
        eng.prove("roundtrip2.what_save_wrote_loads", False, exc=m)
        return
    eng.cover("roundtrip2.returns")
    eng.prove("roundtrip2.what_save_wrote_loads", True)
    for cat in A.CATEGORIES + ["der_states"]:
        got = m.fields.get(cat)
        src = objs[cat]
        ok = isinstance(got, VList) and len(got.items) == len(src)
        eng.prove("roundtrip2.same_variables_in_order", z3.BoolVal(bool(ok)), category=cat)
        if not ok:
            continue
        for k, (v2, v) in enumerate(zip(got.items, src)):
            s2, s1 = v2.fields.get("symbol"), v.fields["symbol"]
            ok = isinstance(s2, A.MXStub) and s2.label == s1.label
            eng.prove("roundtrip2.same_variables_in_order", z3.BoolVal(bool(ok)), category=cat)
            if ok:
                eng.prove("roundtrip2.same_shape", z3.And(ops.to_arith(s2.shape[0]) == s1.shape[0], ops.to_arith(s2.shape[1]) == s1.shape[1]))
            eng.prove("roundtrip2.same_python_type_and_aliases", z3.BoolVal(v2.fields.get("python_type") is v.fields["python_type"] and v2.fields.get("aliases") is v.fields["aliases"]))
            for j, a in enumerate(A.ATTRS):
                val, orig = v2.fields.get(a), v.fields[a]
                if not isinstance(orig, A.AttrMX):
                    eng.prove("roundtrip2.plain_attribute_restored", z3.BoolVal(val is orig), attribute=a)
                    continue
                del ROWMAJOR[:]
                sel = selection_of(val)
                if cat == "der_states":
                    # (P) same attribute values as a fresh compile, for ANY parameter values: the expression must come back as an
                    # expression evaluated from the parameters, whatever carries it
                    eng.prove("roundtrip2.attribute_expressions_of_derivative_variables_survive", z3.BoolVal(val is not None and (sel is not None or isinstance(val, A.MXStub))),
                              got=repr(val), attribute=a, kind=kind)
                    continue
                if sel is None:
                    eng.prove("roundtrip2.mx_attribute_comes_from_the_metadata_function", False, got=repr(val))
                    continue
                # (P) the elements of a matrix attribute come back at their own (row, column): the metadata column lists them column
                # by column, so a row-major reshape is right only for a single row or a single column
                eng.prove("roundtrip2.matrix_attribute_elements_return_to_their_positions",
                          z3.And([z3.Or(ops.to_arith(sh[0]) == 1, ops.to_arith(sh[1]) == 1) if len(sh) == 2 else z3.BoolVal(True) for sh in ROWMAJOR] + [z3.BoolVal(True)]))
                mat, rows, col = sel
                eng.prove("roundtrip2.mx_attribute_comes_from_the_metadata_function", z3.BoolVal(isinstance(mat, A.Matrix) and mat.label.endswith("." + cat)))
                want_call = "#1." if kind == "dependent" else "#2."
                eng.prove("roundtrip2.parameter_dependent_attributes_use_the_parameter_evaluation", z3.BoolVal(want_call in mat.label), kind=kind, source=mat.label)
                eng.prove("roundtrip2.column_is_the_attribute", ops.to_arith(col) == j)
                offset = sum((src[q].fields["symbol"].shape[0] * src[q].fields["symbol"].shape[1] for q in range(k)), z3.IntVal(0))
                n = s1.shape[0] * s1.shape[1]
                if isinstance(rows, VSlice):
                    lo = ops.to_arith(rows.start if rows.start is not None else 0)
                    eng.prove("roundtrip2.rows_are_the_variables_own", z3.And(lo == offset, ops.to_arith(rows.stop) == offset + n))
                else:
                    eng.prove("roundtrip2.rows_are_the_variables_own", z3.And(ops.to_arith(rows) == offset, n == 1))
    for name in ("outputs", "delay_states", "alias_relation", "string_constants", "string_parameters"):
        eng.prove("roundtrip2.other_lists_are_the_models_own", z3.BoolVal(m.fields.get(name) is model.fields[name]), which=name)
    for o in ("dae_residual", "initial_residual", "variable_metadata", "delay_arguments"):
        got = m.fields.get("_%s_function" % o)
        if codegen:
            # code generation: function o is loaded from a shared library that holds the code generated, in THIS save, from THIS model's function o
            lib = getattr(got, "library", None)
            lib = lib.label if isinstance(lib, A.PathStr) else lib
            held = rec["content"].get(lib)
            fresh = held is not None and held[0] == "library" and len(held[1]) >= 1 and held[1][0] is model.fields[o + "_function"]
            ok = isinstance(got, A.FunctionStub) and got.label == "external:" + o
            eng.prove("roundtrip2.code_generated_function_is_loaded_from_its_own_library", z3.BoolVal(bool(ok and fresh)), function=o, library=lib,
                      library_holds=repr(held)[:120] if held is not None else "a file this save did not write")
            if fresh:
                ders = [getattr(d, "label", "") for d in held[1][1:]]
                base = model.fields[o + "_function"].label
                eng.prove("roundtrip2.library_also_holds_the_derivative_functions", z3.BoolVal(ders == [base + ".forward(1)", base + ".reverse(1)", base + ".reverse(1).forward(1)"]), got=ders)
        else:
            eng.prove("roundtrip2.functions_are_the_models_own", z3.BoolVal(got is model.fields[o + "_function"]), function=o)


def h_cached_model_properties(eng):
    """CachedModel: each of the four function properties returns the function load_model stored for it (no crossing), and the variable
    lists are the ones load_model filled"""
    w = A.make_world(eng, with_db=False, minimal_env=True)
    A.install(eng, w)
    mod = eng.load_module(MOD)
    cls = eng.module_global(mod, "CachedModel")
    ar = VClass("AliasRelation")
    ar.constructor = lambda eng, c, a, k: VObj(c, {})
    mod.globals["AliasRelation"] = ar
    m = eng.call(cls, [], {})
    names = ["dae_residual", "initial_residual", "variable_metadata", "delay_arguments"]
    marks = {n: A.Marker("fn:" + n) for n in names}
    for n in names:
        m.fields["_%s_function" % n] = marks[n]
    eng.cover("cached.properties")
    ok = all(eng.getattr(m, n + "_function") is marks[n] for n in names)
    eng.prove("cached.each_function_property_returns_its_own_function", z3.BoolVal(bool(ok)))
    raised = 0
    for n in ("equations", "initial_equations"):
        try:
            eng.getattr(m, n)
        except PyRaise as e:
            raised += e.exc.cls.name == "NotImplementedError"
    eng.prove("cached.individual_equations_are_refused_not_invented", z3.BoolVal(raised == 2))


from pyvc.values import stub as _stub


def _symbols(eng, selfobj, variables):
    return VList([v.fields["symbol"] for v in eng.iterate(variables)])


_symbols._pyvc_method = True
_symbols_method = _symbols


def h_accepted_cache_was_written_for_this_request(eng):
    """load_model hands out what the cache holds; that equals a fresh compile only if the cache was written by this version of
    pymoca for the options now requested -- EVERY option that reaches the compiler, also one pymoca keeps no default for (the world's
    `other_option`; Model.simplify reads options the default table does not list).  The comparison of library folders is C20's
    (recorded there as a known finding) and not demanded here."""
    w = A.make_world(eng, with_db=True, var_shapes={})
    out, val, exc = A.run_load(eng, w)
    if out == "raises":
        eng.cover("request.raises")
        return
    eng.cover("request.returns")
    eng.prove("request.accepted_cache_has_this_version", w.cached_version == w.current_version)
    eng.prove("request.accepted_cache_has_every_requested_option_value", z3.And(w.opt_cached == w.opt_now, w.codegen_cached == w.codegen))


HARNESSES = [("api.load_model/reconstruction", h_reconstruction), ("api.save_model+load_model/delay-symbol-order", h_delay_symbol_order), ("model.Variable.to_dict/from_dict", h_variable_roundtrip),
             ("api.save_model ; api.load_model (composed round trip)", h_save_load_roundtrip), ("api.CachedModel properties", h_cached_model_properties),
             ("api.load_model: the accepted cache was written for this request", h_accepted_cache_was_written_for_this_request)]
EXPECTED_COVER = {"reconstruct.returns", "roundtrip.returns", "delayorder.done", "roundtrip2.returns", "cached.properties", "request.raises", "request.returns"}
BOUNDED = True
LEVEL = "proof"
TRUSTED = ["pyvc VC generator", "z3 5.1.0",
           "pickle round trip (loads(dumps(x)) == x), CasADi Function serialisation / external libraries, numeric agreement of the restored functions",
           "layout of variable_metadata_function's output: one matrix per category, one column per CASADI_ATTRIBUTES entry, numel(v) consecutive rows per variable in list order (C13)"]
ASSUMPTIONS = [
    "file modification times are non-negative (seconds since the epoch) where a harness insists that an up-to-date cache is accepted",
    "0-2 variables per category (enumerated), shapes symbolic; one symbolic dependency code at each enumerated (category, variable, attribute) position, all other positions NOT_MX",
    "of the delay-argument reconstruction only the agreement of save_model's and load_model's symbol enumeration (the index space of the stored dependencies) is under contract; the rest is exercised by the bounded replay only",
    "save_model's side: the composed harness runs the REAL save_model and then the REAL load_model on what it dumped (non-codegen; 3 variable-count patterns, one MX attribute at every position with kind dependent / independent / constant); delays in the stored model only in the bounded replay",
]
DROPPED = ["numeric content of CasADi objects"]
EXPLANATION = "Reconstruction contract of load_model incl. row correspondence for all variable shapes."
MANIFEST = {
    "category": "proof",
    "text": "load_model's reconstruction is executed symbolically on an arbitrary stored dictionary (symbolic variable shapes, symbolic dependency code): lists, names, shapes, types, aliases, plain attributes, outputs, delay states, alias relation, string lists and functions are restored as stored, and an MX attribute of variable i is read from exactly the rows that belong to variable i (prefix sum of element counts) in the attribute's column, from the parameter-dependent or the independent evaluation according to the stored code. Variable.to_dict/from_dict round trip is verified. The real save_model and the real load_model are also executed in sequence (load of exactly what save dumped): variables, order, shapes, types, aliases, plain attributes, the dependent/independent classification of MX attributes and their row ranges, and the stored lists and functions survive the round trip. A bounded replay compares real cached models with fresh compiles numerically. An accepted cache was written for every requested option value, also for options outside pymoca's default table.",
    "note": "Assumed: pickle and CasADi serialisation, metadata matrix layout (C13); variable counts per category enumerated up to 2; delay reconstruction only in the bounded replay.",
    "technique": "contract-based deductive verification: whole-function symbolic execution with recording stubs for the metadata matrices, linear integer VCs (prefix sums), z3",
}
