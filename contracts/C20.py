"""C20 -- the model cache is never used when stale.

Function under contract: load_model (real source, whole function) -- its acceptance condition --
and transfer_model (see C21 for its recompile path).  The history quantifier is handled by making
the pre-state of every call arbitrary: the cache file stands for (version, options, sources at the
time it was written); an edit or an added file shows up as a file whose mtime is later than the
cache's (the statement's hypothesis), an option / version change as a difference between the stored
and the current value.  Precondition: mtime_check=True (the default).
"""
import z3

from pyvc import ops
from pyvc.values import PyRaise, VDict, VList, VObj

from . import api_common as A

MOD = A.MOD


def h_acceptance(eng):
    w = A.make_world(eng, with_db=True, var_shapes={})
    out, val, exc = A.run_load(eng, w)
    if out == "raises":
        eng.cover("accept.raises")
        eng.prove("accept.rejection_is_a_cache_error", z3.BoolVal(val in ("InvalidCacheError", "FileNotFoundError")), exc=val)
        return
    eng.cover("accept.returns")
    # (P) a cache is only accepted if no Modelica file of the model folder or of the CURRENT library
    # folders is newer than the cache file ...
    newer = [mt > w.cache_mtime for path, mt in w.mtimes.items() if path.endswith(".mo")]
    eng.prove("accept.no_source_newer_than_cache", z3.Not(z3.Or(newer)) if newer else True)
    # (a library folder inside the model folder is reached twice: by the walk of the model folder and by its own)
    eng.prove("accept.every_folder_walked", z3.BoolVal(set(["MODEL"] + w.lib_folders) <= set(w.walked)), walked=sorted(w.walked))
    eng.prove("accept.cache_file_exists", z3.Not(w.cache_absent))
    # ... it was written by this version ...
    eng.prove("accept.same_version", w.cached_version == w.current_version)
    # ... and with the current options (every option that influences compilation)
    eng.prove("accept.same_options", z3.And(w.opt_cached == w.opt_now, w.codegen_cached == w.codegen))
    eng.prove("accept.same_library_folders", z3.BoolVal(w.libs_cached_same))
    eng.prove("accept.codegen_library_for_this_os", z3.Implies(w.codegen, z3.BoolVal(w.library_os == w.os_name)))


def h_save_then_load(eng):
    """History: save_model writes the cache at time T from the sources as they were; then any subset of the Modelica files is edited
    (hypothesis of the statement: an edited or added file gets an mtime later than T; an untouched file keeps its mtime, which may
    itself be earlier or LATER than T); then load_model runs on exactly what save_model wrote.  (P) it accepts only if no file was
    edited.  The REAL save_model and the REAL load_model are both executed; nothing is assumed about what the cache dictionary holds."""
    w = A.make_world(eng, with_db=False)
    A.install(eng, w)
    model, objs = A.make_model(eng, {"states": 1, "der_states": 1})
    rec = A.run_save(eng, w, model, w.current_options)
    if rec["raised"] is not None or len(rec["dumps"]) != 1:
        eng.prove("history.save_completes", False, raised=rec["raised"])
        return
    eng.prove("history.save_completes", True)
    db = rec["dumps"][0][0]
    T = w.cache_mtime
    changed = {}
    for path in list(w.mtimes):
        ch = eng.input("edited:%s" % path, eng.fresh_bool("edited"))
        new = eng.input("mtime_at_load:%s" % path, eng.fresh_int("mt_load"))
        eng.assume(z3.If(ch, new > T, new == w.mtimes[path]))
        w.mtimes[path] = new
        changed[path] = ch
    eng.assume(z3.Not(w.cache_absent))
    w.db, w.pickle_outcome = db, None
    out, val, exc = A.run_load(eng, w)
    if out == "raises":
        eng.cover("history.rejects")
        eng.prove("history.rejection_is_a_cache_error", z3.BoolVal(val in ("InvalidCacheError", "FileNotFoundError")), exc=val)
        return
    eng.cover("history.accepts")
    edited = [c for path, c in changed.items() if path.endswith(".mo")]
    eng.prove("history.cache_written_before_an_edit_is_not_accepted_after_it", z3.Not(z3.Or(edited)) if edited else True)


HARNESSES = [("api.load_model/acceptance", h_acceptance), ("api.save_model ; edits ; api.load_model", h_save_then_load)]
EXPECTED_COVER = {"accept.raises", "accept.returns", "history.rejects", "history.accepts"}
BOUNDED = True
LEVEL = "proof"
TRUSTED = ["pyvc VC generator", "z3 5.1.0",
           "os.walk yields every file of a folder; fnmatch.filter(files, '*.mo') keeps exactly the names ending in .mo; os.path.getmtime returns the modification time",
           "an edit or addition of a .mo file gives it an mtime later than the cache file's (hypothesis of the statement)"]
ASSUMPTIONS = [
    "mtime_check=True (default) is a precondition",
    "folder shapes are enumerated: model folder with 0-2 files, 0-2 library folders with 0-2 files, flat (one os.walk entry per folder); mtimes, version strings and option values are symbolic",
    "'options' are modelled as library_folders, codegen and one generic other option compared by ==",
    "that the accepted cache equals compile(current sources, current options) additionally needs: equal sources <= no newer file (hypothesis), and C19 (load reproduces what was saved)",
]
EXPLANATION = "Acceptance condition of load_model for all mtimes, versions and option values."
MANIFEST = {
    "category": "proof",
    "text": "The real load_model is executed symbolically for every combination of file modification times, stored/current version and stored/current option values over enumerated folder shapes: a normal return implies no .mo file of the model or current library folders is newer than the cache, the versions are equal and the options are equal. A composed history -- the real save_model writes the cache, any subset of the files is edited (later mtime than the cache; untouched files keep theirs, earlier or later than the cache), the real load_model reads exactly what was written -- is accepted only if nothing was edited. The library_folders option is excluded from the comparison by the code; this is reported as a known finding (a cache compiled against library folder A is reused for library folder B). A bounded replay drives the real transfer_model through edit / add / option-change / version-change histories with explicit mtimes.",
    "note": "Assumed: os.walk/fnmatch/getmtime contracts, the statement's hypothesis that edits get later mtimes; folder shapes enumerated; equality of the compiled model itself rests on C19.",
    "technique": "contract-based deductive verification: whole-function symbolic execution with a symbolic file-system world, z3",
}
