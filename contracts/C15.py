"""C15 -- simplification keeps regular systems square and self-contained.

Fragments of Model._simplify_once under contract (real source, located structurally):
  eliminate_constant_assignments block     every dropped equation removes exactly one algebraic unknown,
                                           which is kept as a constant
  eliminable_variable_expression block     (extract_assignment / get_derivative by contract) every dropped
                                           equation removes exactly one unknown (a state together with its
                                           derivative); every eliminated symbol is handed to all three
                                           substitute calls
  detect_aliases block                     real _detect_alias / _make_alias and the REAL AliasRelation class:
                                           equations dropped = algebraic unknowns eliminated; eliminated
                                           symbols are handed to all substitute calls
Counting is exact on enumerated equation lists (2-3 equations of every shape the matchers
distinguish, chains through states / derivatives included); leaves and options are symbolic.
"""
import z3

from pyvc import ops
from pyvc.values import Ext, NoOp, PyRaise, Unsupported, VBound, VClass, VDict, VFunc, VList, VObj, VSet, stub

from . import mx_algebra as M
from .C14 import Pattern, symvar_of, variable
from .mx_algebra import E, const, sym

MODEL = "pymoca.backends.casadi.model"


class SubstLog:
    def __init__(self):
        self.calls = []

    def stub(self):
        def substitute(eng, exprs, variables, values):
            self.calls.append((exprs, list(eng.iterate(variables)), list(eng.iterate(values))))
            return exprs
        return stub(substitute)


PAIRS = [("x-c", "y-c"), ("x-c", "x-y"), ("c+x", "y*c"), ("sym", "x-s"), ("x-y", "y-c"), ("c-x", "c-y")]


def eq_of(shape, c):
    x, y, s = sym("a1"), sym("a2"), sym("s1")
    return {"x-c": E("OP_SUB", x, c), "y-c": E("OP_SUB", y, c), "x-y": E("OP_SUB", x, y), "c+x": E("OP_ADD", c, x), "y*c": E("OP_MUL", y, c),
            "sym": x, "x-s": E("OP_SUB", x, s), "c-x": E("OP_SUB", c, x), "c-y": E("OP_SUB", c, y)}[shape]


def h_constant_counting(eng):
    M.install(eng)
    p = PAIRS[eng.choice(len(PAIRS))]
    eng.input("equations", list(p))
    c = const(eng.input("c", eng.fresh_real("c")))
    eqs = [eq_of(s, c) for s in p]
    va1, va2 = variable("a1"), variable("a2")
    pre_const = variable("k0")
    model = M.new_model(eng, {"equations": VList(eqs), "alg_states": VList([va1, va2]), "constants": VList([pre_const])})
    eng.exec_fragment(MODEL, "Model._simplify_once", M.block_selector("eliminate_constant_assignments"),
                      {"self": model, "options": VDict([("eliminate_constant_assignments", True)])}, label="eliminate-constant-assignments")
    eng.cover("count.const")
    left, algs, consts = model.fields["equations"].items, model.fields["alg_states"].items, model.fields["constants"].items
    dropped = len(eqs) - len(left)
    eng.prove("const.one_unknown_per_dropped_equation", z3.BoolVal(dropped == 2 - len(algs)))
    eng.prove("const.eliminated_unknowns_become_constants", z3.BoolVal(consts[0] is pre_const and len(consts) == 1 + dropped and
                                                                         {id(v) for v in consts[1:]} | {id(v) for v in algs} == {id(va1), id(va2)}))
    eng.prove("const.kept_equations_keep_their_order", z3.BoolVal(all(e in eqs for e in left) and [eqs.index(e) for e in left] == sorted(eqs.index(e) for e in left)))


def h_eliminable_counting(eng):
    log = SubstLog()
    M.install(eng, {"substitute": log.stub(), "is_equal": stub(lambda eng, *a: True), "veccat": stub(lambda eng, *a: E("opaque", value=z3.RealVal(0)))})
    eng.ext_modules["re"].attrs["compile"] = stub(lambda eng, *a: Pattern(eng))
    va, vb, vs = variable("_a"), variable("b"), variable("_s")
    ds = variable("der(_s)")
    eqs = [E("opaque", value=z3.RealVal(i)) for i in range(3)]
    outcome = [eng.choice(4) for _ in eqs]      # 0: nothing, 1: eliminates alg _a, 2: eliminates state _s, 3: eliminates alg b
    eng.input("extract_outcomes", outcome)
    if outcome.count(1) > 1 or outcome.count(2) > 1 or outcome.count(3) > 1:
        from pyvc.values import PathEnd
        raise PathEnd()          # a regular system does not define the same variable twice
    values = {1: E("opaque", value=z3.RealVal(11)), 2: E("opaque", value=z3.RealVal(12)), 3: E("opaque", value=z3.RealVal(13))}

    def extract(eng, args, kw):
        k = outcome[eqs.index(args[0])]
        return {0: (None, None), 1: (va.fields["symbol"], values[1]), 2: (vs.fields["symbol"], values[2]), 3: (vb.fields["symbol"], values[3])}[k]
    dval = E("opaque", value=z3.RealVal(99))
    eng.call_contracts["extract_assignment"] = extract
    eng.call_contracts["get_derivative"] = lambda eng, args, kw: dval
    delay_log = []
    model = M.new_model(eng, {"states": VList([vs]), "der_states": VList([ds]), "alg_states": VList([va, vb]), "equations": VList(list(eqs)),
                                   "initial_equations": VList([E("opaque", value=z3.RealVal(7))]), "delay_arguments": VList([(E("opaque", value=z3.RealVal(5)), E("opaque", value=z3.RealVal(6)))])})
    model.cls.attrs["_substitute_delay_arguments"] = _delay_recorder(delay_log)
    opts = VDict([("eliminable_variable_expression", "_.*"), ("expand_mx", True)])
    eng.exec_fragment(MODEL, "Model._simplify_once", M.block_selector("eliminable_variable_expression"), {"self": model, "options": opts},
                      label="eliminable-variable-block")
    eng.cover("count.eliminable")
    n_drop = sum(1 for k in outcome if k)
    left = model.fields["equations"]
    states, algs, ders = model.fields["states"].items, model.fields["alg_states"].items, model.fields["der_states"].items
    eng.prove("elim.one_unknown_per_dropped_equation", z3.BoolVal(len(states) + len(algs) == 3 - n_drop))
    eng.prove("elim.state_goes_with_its_derivative", z3.BoolVal((vs in states) == (ds in ders) and len(ders) == len(states)))
    gone = [v.fields["symbol"] for v, k in ((va, 1), (vs, 2), (vb, 3)) if k in outcome] + ([ds.fields["symbol"]] if 2 in outcome else [])
    if n_drop:
        # (P) no remaining expression may refer to an eliminated variable: all of them are
        # substituted in the equations, the initial equations and the delay arguments
        eq_calls = [c for c in log.calls if c[0] is left or (isinstance(c[0], VList) and c[0] is model.fields["equations"])]
        targets = {"equations": False, "initial_equations": False}
        for exprs, vars_, vals in log.calls:
            covers = all(any(g is v for v in vars_) for g in gone)
            if exprs is model.fields["initial_equations"] or (isinstance(exprs, VList) and exprs.items and exprs.items[0] is model.fields["initial_equations"].items[0]):
                targets["initial_equations"] = targets["initial_equations"] or covers
            elif isinstance(exprs, VList) and all(e in eqs for e in exprs.items) and len(exprs.items) == 3 - n_drop:
                targets["equations"] = targets["equations"] or covers
        eng.prove("elim.eliminated_symbols_substituted_in_equations", z3.BoolVal(targets["equations"] or len(left.items if isinstance(left, VList) else []) == 0))
        eng.prove("elim.eliminated_symbols_substituted_in_initial_equations", z3.BoolVal(targets["initial_equations"]))
        eng.prove("elim.eliminated_symbols_substituted_in_delay_arguments", z3.BoolVal(any(all(any(g is v for v in vs_) for g in gone) for vs_ in delay_log)))
    else:
        eng.prove("elim.nothing_dropped_nothing_removed", z3.BoolVal(len(states) == 1 and len(algs) == 2))


def _delay_recorder(log):
    def m(eng, selfobj, delay_arguments, symbols, values):
        log.append(list(eng.iterate(symbols)))
        return delay_arguments
    m._pyvc_method = True
    return m


ALIAS_LISTS = [
    ["x-y"], ["x+y"], ["x-y", "y-z"], ["x-y", "x-y"], ["x-s"], ["x-s", "y-x"], ["dx-x", "x-s2"], ["x-s", "x-s2"], ["x-y", "z*c", "z-s"], ["x-p"],
    ["x-y", "y-z", "z+x"], ["x+y", "y-x"], ["x-s", "y-x", "y+s"],       # alias cycles with an odd number of negative links (regular: only solution 0)
    # a LATER pass (iterative_simplification / a second simplify call): x is the canonical variable of a group formed earlier
    # (its alias w is already eliminated) and now becomes an alias itself, positively or negatively
    ["prev:x~w", "x+y"], ["prev:x~w", "y-x"], ["prev:x~-w", "x+y"], ["prev:x~w", "x-s"], ["prev:x~w", "x+y", "z-y"],
]


def h_alias_counting(eng):
    log = SubstLog()
    from .C14 import Subst
    M.install(eng, {"substitute": _alias_substitute(log), "symvar": stub(lambda eng, t: VList(symvar_of(t))),
                    "fmax": stub(lambda eng, a, b: a), "fmin": stub(lambda eng, a, b: a)})
    from .ast_common import base_modules
    lst = ALIAS_LISTS[eng.choice(len(ALIAS_LISTS))]
    eng.input("equations", lst)
    allow_der = eng.input("allow_derivative_aliases", eng.fresh_bool("allow_der"))
    syms = {n: sym(n) for n in ("x", "y", "z", "s", "s2", "der(s)", "p")}
    c = const(z3.RealVal(2))
    mk = {"x-y": lambda: E("OP_SUB", syms["x"], syms["y"]), "x+y": lambda: E("OP_ADD", syms["x"], syms["y"]), "y-z": lambda: E("OP_SUB", syms["y"], syms["z"]),
          "x-s": lambda: E("OP_SUB", syms["x"], syms["s"]), "y-x": lambda: E("OP_SUB", syms["y"], syms["x"]), "dx-x": lambda: E("OP_SUB", syms["der(s)"], syms["x"]),
          "x-s2": lambda: E("OP_SUB", syms["x"], syms["s2"]), "z*c": lambda: E("OP_MUL", syms["z"], c), "z-s": lambda: E("OP_SUB", syms["z"], syms["s"]),
          "x-p": lambda: E("OP_SUB", syms["x"], syms["p"]), "z+x": lambda: E("OP_ADD", syms["z"], syms["x"]),
          "y+s": lambda: E("OP_ADD", syms["y"], syms["s"]), "z-y": lambda: E("OP_SUB", syms["z"], syms["y"])}
    prev = [t for t in lst if t.startswith("prev:")]
    lst = [t for t in lst if not t.startswith("prev:")]
    eqs = [mk[s]() for s in lst]

    def var(n):
        v = VObj(VClass("Variable"), {"symbol": syms[n], "python_type": eng.builtins["float"], "start": 0.0, "min": 0.0, "max": 0.0, "nominal": 0.0,
                                      "fixed": False, "aliases": VSet([])})
        return v
    V = {n: var(n) for n in syms}
    ar_cls = eng.module_global(eng.load_module("pymoca.backends.casadi.alias_relation"), "AliasRelation")
    rel = eng.call(ar_cls, [], {})
    for t in prev:
        c_, a_ = t[5:].split("~")
        eng.call(eng.getattr(rel, "add"), [c_, a_], {})          # the relation as an earlier pass left it
    delay_log = []
    model = M.new_model(eng, {"states": VList([V["s"], V["s2"]]), "der_states": VList([V["der(s)"]]), "alg_states": VList([V["x"], V["y"], V["z"]]),
                                   "inputs": VList([]), "parameters": VList([V["p"]]), "constants": VList([]), "alias_relation": rel,
                                   "equations": VList(list(eqs)), "initial_equations": VList([E("opaque", value=z3.RealVal(7))]),
                                   "delay_arguments": VList([(E("opaque", value=z3.RealVal(5)), E("opaque", value=z3.RealVal(6)))])})
    model.cls.attrs["_substitute_delay_arguments"] = _delay_recorder(delay_log)
    mm = eng.load_module(MODEL)
    opts = VDict([("detect_aliases", True), ("allow_derivative_aliases", allow_der), ("expand_vectors", False), ("expand_mx", False)])
    try:
        eng.exec_fragment(MODEL, "Model._simplify_once", M.block_selector("detect_aliases"), {"self": model, "options": opts}, label="detect-aliases-block")
    except PyRaise as e:
        eng.prove("alias.no_exception", False, exc=repr(e.exc))
        return
    eng.cover("count.alias")
    left = model.fields["equations"]
    left_items = left.items if isinstance(left, VList) else []
    n_unknown_before = 2 + 3     # states + alg_states
    n_unknown_after = len(model.fields["states"].items) + len(model.fields["alg_states"].items)
    dropped = len(eqs) - len(left_items)
    redundant = lst == ["x-y", "x-y"]            # a repeated equation makes the system singular: outside "regular"
    param_alias = lst == ["x-p"]
    if not redundant:
        eng.prove("alias.one_unknown_per_dropped_equation", z3.BoolVal(dropped == n_unknown_before - n_unknown_after), dropped=dropped,
                  removed=n_unknown_before - n_unknown_after)
    eng.prove("alias.only_algebraic_unknowns_eliminated", z3.BoolVal(len(model.fields["states"].items) == 2 and len(model.fields["der_states"].items) == 1))
    gone = [V[n].fields["symbol"] for n in ("x", "y", "z") if V[n] not in model.fields["alg_states"].items]
    if gone:
        for target, name in ((left_items, "equations"), (model.fields["initial_equations"].items, "initial_equations")):
            ok = not target or any(all(any(g is v for v in vars_) for g in gone) for exprs, vars_, vals in log.calls
                                   if (exprs is target) or (isinstance(exprs, VList) and exprs.items == target))
            eng.prove("alias.eliminated_symbols_substituted_in_%s" % name, z3.BoolVal(bool(ok)))
        eng.prove("alias.eliminated_symbols_substituted_in_delay_arguments", z3.BoolVal(any(all(any(g is v for v in vs_) for g in gone) for vs_ in delay_log)))


def _alias_substitute(log):
    from .C14 import Subst

    def substitute(eng, exprs, variables, values):
        if isinstance(exprs, E):
            return Subst(exprs, variables, values)         # the probing substitute of _detect_alias
        log.calls.append((exprs, list(eng.iterate(variables)), list(eng.iterate(values))))
        return exprs
    return stub(substitute)


# a variable that matches the expression may be defined by two equations of a perfectly regular system (`_v = 2*x + 1; _v = 3*z`):
# it is eliminated ONCE, the second equation is kept (it becomes `value1 - value2 = 0`).  The real extract_assignment closure
# runs here (it looks the candidates up in the LIVE states / alg_states dictionaries the loop shrinks).
REAL_LISTS = [
    ["_a-v1", "_a-v2"], ["_s-v1", "_s-v2"], ["_a-v1", "v2-_a", "_s-v3"], ["_a", "_a-v1"], ["_a-_s", "_s-v1"], ["_a-b", "b-_a"],
    ["_s-v1", "_a-_s", "_s+v2"], ["_a+v1", "b-v2", "_a-b"], ["v1-v2", "_s-_a", "_s-_a"],
    ["_a-v1", "_a"], ["_s-v1", "_s"],          # `_v = expr; _v = 0;` -- the second definition is the bare symbol
]


def h_eliminable_counting_real(eng):
    log = SubstLog()
    M.install(eng, {"substitute": log.stub(), "is_equal": stub(lambda eng, *a: True), "veccat": stub(lambda eng, *a: E("opaque", value=z3.RealVal(0)))})
    eng.ext_modules["re"].attrs["compile"] = stub(lambda eng, *a: Pattern(eng))
    lst = REAL_LISTS[eng.choice(len(REAL_LISTS))]
    eng.input("equations", lst)
    va, vb, vs = variable("_a"), variable("b"), variable("_s")
    ds = variable("der(_s)")
    S = {"_a": va.fields["symbol"], "b": vb.fields["symbol"], "_s": vs.fields["symbol"]}
    for i in (1, 2, 3):
        S["v%d" % i] = E("opaque", value=eng.fresh_real("v%d" % i))

    def mk(t):
        if "-" in t:
            l, r = t.split("-")
            return E("OP_SUB", S[l], S[r])
        if "+" in t:
            l, r = t.split("+")
            return E("OP_ADD", S[l], S[r])
        return S[t]
    eqs = [mk(t) for t in lst]
    eng.call_contracts["get_derivative"] = lambda eng, args, kw: E("opaque", value=z3.RealVal(99))
    delay_log = []
    model = M.new_model(eng, {"states": VList([vs]), "der_states": VList([ds]), "alg_states": VList([va, vb]), "equations": VList(list(eqs)),
                                   "initial_equations": VList([E("opaque", value=z3.RealVal(7))]), "delay_arguments": VList([(E("opaque", value=z3.RealVal(5)), E("opaque", value=z3.RealVal(6)))])})
    model.cls.attrs["_substitute_delay_arguments"] = _delay_recorder(delay_log)
    opts = VDict([("eliminable_variable_expression", "_.*"), ("expand_mx", True)])
    try:
        eng.exec_fragment(MODEL, "Model._simplify_once", M.block_selector("eliminable_variable_expression"), {"self": model, "options": opts},
                          label="eliminable-variable-block")
    except PyRaise as e:
        eng.prove("elimreal.no_exception", False, exc=repr(e.exc))
        return
    eng.cover("count.eliminable_real")
    left = model.fields["equations"]
    left_items = left.items if isinstance(left, VList) else []
    states, algs, ders = model.fields["states"].items, model.fields["alg_states"].items, model.fields["der_states"].items
    dropped = len(eqs) - len(left_items)
    eng.prove("elimreal.one_unknown_per_dropped_equation", z3.BoolVal(dropped == 3 - (len(states) + len(algs))), dropped=dropped, unknowns_left=len(states) + len(algs))
    eng.prove("elimreal.state_goes_with_its_derivative", z3.BoolVal((vs in states) == (ds in ders) and len(ders) == len(states)))
    eng.prove("elimreal.kept_equations_are_original_ones_in_order", z3.BoolVal(all(any(e is q for q in eqs) for e in left_items) and
                                                                             [i for e in left_items for i, q in enumerate(eqs) if q is e] == sorted(i for e in left_items for i, q in enumerate(eqs) if q is e)))
    # (P, precondition of ca.substitute "the input expressions are independent") no symbol is substituted twice in one call,
    # and what is substituted is no longer an unknown
    indep = all(len({id(v) for v in vars_}) == len(vars_) for exprs, vars_, vals in log.calls) and all(len({id(v) for v in vs_}) == len(vs_) for vs_ in delay_log)
    eng.prove("elimreal.no_symbol_substituted_twice", z3.BoolVal(bool(indep)))
    unknown_syms = [v.fields["symbol"] for v in states + algs + ders]
    eng.prove("elimreal.substituted_symbols_are_no_longer_unknowns", z3.BoolVal(all(not any(g is u for u in unknown_syms) for exprs, vars_, vals in log.calls for g in vars_)))


# ------------------------------------------------------------------------------------------------ chains of eliminable variables
def h_eliminable_chain_resolution(eng):
    """The WHOLE eliminable-variable block on chains of helper variables written in every order (equations are unordered, so a helper
    may be used before the equation that defines it), with ca.substitute / ca.is_equal given their real meaning on terms: after the
    block no remaining equation, initial equation or delay argument refers to an eliminated variable, whatever the order -- the
    expressions substituted for the helpers must have been resolved against each other to a fixed point."""
    import itertools as _it
    log = []
    M.install(eng, dict(M.chain_module_functions(), **M.substitution_functions(log)))
    from .C14 import FixedPattern
    eng.ext_modules["re"].attrs["compile"] = stub(lambda eng, *a: FixedPattern())
    dv = eng.module_global(eng.load_module(MODEL), "_DefaultValue")
    dv.constructor = lambda eng, c, a, k: VObj(c, {"value": a[0] if a else 0})
    wide = getattr(eng, "tier", "quick") == "thorough"
    n = 1 + eng.choice(4 if wide else 3)
    perms = list(_it.permutations(range(n)))
    order = perms[eng.choice(len(perms))]
    x, k = sym("x"), sym("k")
    helpers = [sym("_v%d" % (i + 1)) for i in range(n)]
    # _v1 = k*_v2 + 1; _v2 = k*_v3 + 2; ... ; _vn = k*x + n
    defs = []
    for i in range(n):
        nxt = helpers[i + 1] if i + 1 < n else x
        defs.append(E("OP_SUB", helpers[i], E("OP_ADD", E("OP_MUL", k, nxt), const(z3.RealVal(i + 1)))))
    user = E("OP_SUB", sym("der(x)"), helpers[0])          # der(x) = _v1
    init = E("OP_SUB", x, helpers[min(1, n - 1)])
    delay_rec = []
    eqs = [defs[i] for i in order]
    where = eng.choice(3)
    eqs.insert([0, len(eqs) // 2, len(eqs)][where], user)
    eng.input("equations", [repr(e) for e in eqs])
    var = lambda t: VObj(VClass("Variable"), {"symbol": t, "value": float("nan")})
    model = M.new_model(eng, {"states": VList([var(x)]), "der_states": VList([var(user.deps[0])]), "alg_states": VList([var(h) for h in helpers]),
                              "parameters": VList([var(k)]), "equations": VList(list(eqs)), "initial_equations": VList([init]),
                              "delay_arguments": VList([(E("opaque", value=z3.RealVal(5)), E("opaque", value=z3.RealVal(6)))])})

    def rec(eng, selfobj, delay_arguments, symbols, values):
        delay_rec.append((list(eng.iterate(symbols)), list(eng.iterate(values))))
        return delay_arguments
    rec._pyvc_method = True
    model.cls.attrs["_substitute_delay_arguments"] = rec
    opts = VDict([("eliminable_variable_expression", "_.*"), ("expand_mx", True)])
    try:
        eng.exec_fragment(MODEL, "Model._simplify_once", M.block_selector("eliminable_variable_expression"), {"self": model, "options": opts},
                          label="eliminable-variable-block")
    except PyRaise as e:
        eng.prove("elimchain.no_exception", False, exc=repr(e.exc))
        return
    eng.cover("count.eliminable_chain")
    gone = [h for h in helpers if not any(v.fields["symbol"] is h for v in model.fields["alg_states"].items + model.fields["states"].items)]
    eng.prove("elimchain.every_helper_is_eliminated", z3.BoolVal(len(gone) == n), eliminated=[g.nm for g in gone])

    def clean(t):
        return not any(any(s_ is g for g in gone) for s_ in M.symbols_of(t))
    left = model.fields["equations"]
    left = left.items if isinstance(left, VList) else []
    eng.prove("elimchain.no_remaining_equation_refers_to_an_eliminated_variable", z3.BoolVal(all(clean(e) for e in left)), equations=[repr(e)[:80] for e in left])
    ie = model.fields["initial_equations"]
    ie = ie.items if isinstance(ie, VList) else []
    eng.prove("elimchain.no_initial_equation_refers_to_an_eliminated_variable", z3.BoolVal(all(clean(e) for e in ie)), initial_equations=[repr(e)[:80] for e in ie])
    ok = bool(delay_rec) and all(all(clean(v) for v in vals) and all(any(g is s_ for s_ in syms_) for g in gone) for syms_, vals in delay_rec)
    eng.prove("elimchain.delay_arguments_get_resolved_expressions_for_every_eliminated_variable", z3.BoolVal(bool(ok)))
    eng.prove("elimchain.one_equation_dropped_per_helper", z3.BoolVal(len(left) == 1))


# ------------------------------------------------------------------------------------------------ the four replace_* blocks
class PV(E):
    """a parameter / constant value: a regular number, NaN (unspecified) or an expression over other parameters"""

    def __init__(self, kind):
        E.__init__(self, "const" if kind in ("number", "nan") else "opaque", value=z3.RealVal(1))
        self.pkind = kind

    def sym_getattr(self, eng, name):
        if name == "is_regular":
            return stub(lambda eng: self.pkind == "number")
        if name == "is_constant":
            return stub(lambda eng: self.pkind in ("number", "nan"))
        return E.sym_getattr(self, eng, name)


REPLACE_OPTIONS = ["replace_parameter_expressions", "replace_constant_expressions", "replace_parameter_values", "replace_constant_values"]


def h_replace_blocks(eng):
    """Each replace_* step removes parameters / constants from the model's lists: every removed symbol must be substituted in the
    equations, the initial equations, the DELAY ARGUMENTS and the metadata, or an output function can no longer be built."""
    log = SubstLog()
    M.install(eng, {"substitute": log.stub(), "is_equal": stub(lambda eng, *a: True), "veccat": stub(lambda eng, *a: E("opaque", value=z3.RealVal(0)))})
    opt = REPLACE_OPTIONS[eng.choice(len(REPLACE_OPTIONS))]
    eng.input("option", opt)

    def var(name, kind):
        v = variable(name)
        v.fields["value"] = PV(kind)
        v.fields["aliases"] = VSet([])
        return v
    params = [var("p_num", "number"), var("p_expr", "expr"), var("p_nan", "nan")]
    consts = [var("c_num", "number"), var("c_expr", "expr")]
    eqs, ieqs = VList([E("opaque", value=z3.RealVal(1))]), VList([E("opaque", value=z3.RealVal(2))])
    delay_log, meta_log = [], []
    model = M.new_model(eng, {"parameters": VList(list(params)), "constants": VList(list(consts)), "equations": eqs, "initial_equations": ieqs,
                                   "delay_arguments": VList([(E("opaque", value=z3.RealVal(5)), E("opaque", value=z3.RealVal(6)))]), "alias_relation": VObj(VClass("AliasRelation"))})
    model.cls.attrs["_substitute_delay_arguments"] = _delay_recorder(delay_log)

    def sm(eng, selfobj, symbols, values):
        meta_log.append(list(eng.iterate(symbols)))
    sm._pyvc_method = True
    model.cls.attrs["_substitute_metadata"] = sm

    def symbols_of(eng, selfobj, variables):
        return VList([v.fields["symbol"] for v in eng.iterate(variables)])
    symbols_of._pyvc_method = True
    model.cls.attrs["_symbols"] = symbols_of
    opts = VDict([(o, o == opt) for o in REPLACE_OPTIONS])
    eng.exec_fragment(MODEL, "Model._simplify_once", M.block_selector(opt), {"self": model, "options": opts}, label=opt)
    eng.cover("replace." + opt)
    left = [v for v in eng.iterate(model.fields["parameters"])] + [v for v in eng.iterate(model.fields["constants"])]
    gone = [v.fields["symbol"] for v in params + consts if not any(v is l for l in left)]
    expect_gone = {"replace_parameter_expressions": ["p_expr"], "replace_constant_expressions": ["c_expr"], "replace_parameter_values": ["p_num"],
                   "replace_constant_values": ["c_num", "c_expr"]}[opt]
    eng.prove("replace.removes_exactly_the_replaced_parameters_or_constants", z3.BoolVal(sorted(g.nm for g in gone) == sorted(expect_gone)), gone=[g.nm for g in gone])

    def covered(calls_vars):
        return any(all(any(g is v for v in vars_) for g in gone) for vars_ in calls_vars)
    eq_calls = [vars_ for exprs, vars_, vals in log.calls if exprs is eqs]
    ieq_calls = [vars_ for exprs, vars_, vals in log.calls if exprs is ieqs]
    eng.prove("replace.removed_symbols_substituted_in_equations", z3.BoolVal(covered(eq_calls)))
    eng.prove("replace.removed_symbols_substituted_in_initial_equations", z3.BoolVal(covered(ieq_calls)))
    eng.prove("replace.removed_symbols_substituted_in_delay_arguments", z3.BoolVal(covered(delay_log)), option=opt)
    eng.prove("replace.removed_symbols_substituted_in_metadata", z3.BoolVal(covered(meta_log)))


def _reduce_affine_contract(eng):
    from .C14 import h_reduce_affine
    return h_reduce_affine(eng)


def _make_alias_contract(eng):
    from .C14 import h_make_alias
    return h_make_alias(eng)


def h_eliminated_states_leave_no_orphan_derivative(eng):
    """The eliminable-variable loop with the real extract_assignment and get_derivative on chains of states and algebraic variables
    in every order: whatever the recorded replacement values mention is a variable the model keeps or one that is itself recorded
    for substitution -- no derivative symbol of an eliminated variable is left belonging to no variable list.  (C14's harness of
    the loop, whose obligation `elimder.recorded_values_mention_only_variables_of_the_model` is the self-containedness of C15.)"""
    from contracts import C14
    C14.h_eliminable_derivatives(eng)


HARNESSES = [("Model._simplify_once#eliminate_constant_assignments/counting", h_constant_counting),
             ("Model._simplify_once#eliminable_variable_expression/counting", h_eliminable_counting),
             ("Model._simplify_once#eliminable_variable_expression/counting with the real extract_assignment", h_eliminable_counting_real),
             ("Model._simplify_once#eliminable_variable_expression/chains in every order, real substitution", h_eliminable_chain_resolution),
             ("Model._simplify_once#detect_aliases/counting", h_alias_counting),
             ("Model._simplify_once#replace_* blocks", h_replace_blocks),
             ("Model._simplify_once._make_alias (only algebraic unknowns are eliminated)", _make_alias_contract),
             ("Model._simplify_once#reduce_affine_expression (one set of state vectors)", _reduce_affine_contract),
             ("Model._simplify_once#eliminable_variable_expression: no derivative symbol without a variable", h_eliminated_states_leave_no_orphan_derivative)]
EXPECTED_COVER = {"count.const", "count.eliminable", "count.eliminable_real", "count.eliminable_chain", "count.alias"} | {"replace." + o for o in REPLACE_OPTIONS} | {"make.done", "affine.done", "elimder.done", "elimder.raises"}
BOUNDED = True
LEVEL = "proof"
TRUSTED = ["pyvc VC generator", "z3 5.1.0", "MX node algebra of contracts/mx_algebra.py", "ca.substitute(exprs, vars, values) removes the substituted symbols from exprs (counting harnesses); the chain harness gives ca.substitute / ca.is_equal their meaning on terms (contracts/mx_algebra.py substitute_term / same_term)",
           "AliasRelation (verified under C17) -- here its real code is executed concretely"]
ASSUMPTIONS = [
    "equation lists are enumerated (2-3 equations; every matcher shape; alias chains through a state, through a derivative and a second state, through a parameter); in the harness with extract_assignment under contract 'regular' excludes a variable defined twice; the harness that runs the REAL extract_assignment closure includes double definitions (the variable must be eliminated once and the second equation kept); a repeated alias equation is excluded",
    "that the residual functions can then be BUILT (ca.Function without free symbols) is CasADi's; decided here: every eliminated symbol is among the variables of every substitute call",
]
EXPLANATION = "Counting and self-containedness of the three elimination blocks."
MANIFEST = {
    "category": "proof",
    "text": "The three elimination blocks of simplify() are extracted structurally and executed on enumerated equation lists with symbolic leaves and options (the alias block with the real nested functions and the real AliasRelation): the number of dropped equations equals the number of unknowns removed (a state goes with its derivative, constants are kept), only algebraic unknowns are eliminated by aliasing, and every eliminated symbol is passed to the substitute calls for equations, initial equations and delay arguments. A bounded replay checks unknowns - equations and residual construction on generated square models. C14's harness of the eliminable-variable loop is discharged here for self-containedness: no derivative symbol of an eliminated variable is left without a variable.",
    "note": "Enumerated equation lists; CasADi's substitute and Function construction assumed; a variable defined by two equations is eliminated once (real extract_assignment closure on the live dictionaries), no symbol is substituted twice.",
    "technique": "contract-based deductive verification: structural fragment extraction and symbolic execution of the elimination blocks with recording stubs, z3",
}
