"""C08 replay / bounded stand-in: generated hierarchies with modifications at type, declaration, enclosing-component and
extends level, written dotted or nested, are flattened by the real code; every attribute of every flat variable is
compared with a reference evaluation (outermost applicable modification wins; names are resolved in the class where the
modification is written); the two spellings must give the same flat model, or be rejected."""
import json
import logging
import sys

import numpy as np

ATTRS = ["start", "min", "max", "nominal"]


def lit(rng):
    return str(int(rng.randint(1, 90)))


class Scenario:
    """sites: list of (site, target path relative to the site's component, attribute or 'value', expression text)"""

    def __init__(self, rng):
        self.mods = {"type": [], "declA": [], "A.ext": [], "B.a": [], "C.ext": [], "T.b": [], "T.c": [], "T.a1": []}
        r = rng
        if r.rand() < 0.7:
            self.mods["type"].append(("", str(r.choice(["nominal", "min", "max"])), lit(r)))
        menu_decl = [("p", "value"), ("x", "start"), ("x", "min"), ("x", "nominal"), ("v", "start"), ("v", "nominal")]
        for t, a in menu_decl:
            if r.rand() < 0.5:
                self.mods["declA"].append((t, a, lit(r)))
        if r.rand() < 0.7:
            self.mods["A.ext"].append(("k", "value", lit(r)))
        menu_a = [("k", "value"), ("p", "value"), ("q", "value"), ("x", "start"), ("x", "min"), ("x", "max"), ("x", "nominal"), ("v", "start"), ("v", "nominal"), ("v", "min")]

        def pick(site, prefix, names, n):
            seen = set()
            for _ in range(n):
                t, a = menu_a[r.randint(len(menu_a))]
                if (t, a) in seen:
                    continue
                seen.add((t, a))
                e = lit(r) if (r.rand() < 0.6 or not names) else str(r.choice(names))
                self.mods[site].append((prefix + t, a, e))
        pick("B.a", "", ["q"], r.randint(0, 4))
        pick("C.ext", "", ["r2"], r.randint(0, 4))
        pick("T.b", "a.", ["q", "r"], r.randint(0, 4))
        if r.rand() < 0.3:
            self.mods["T.b"].append(("q", "value", lit(r)))
        pick("T.c", "", ["q", "r"], r.randint(0, 3))
        pick("T.a1", "", ["q", "r"], r.randint(0, 3))

    @staticmethod
    def spell(mods, style, rng=None):
        """modifier list text for one site; style: 'dotted' | 'nested' | 'mixed'"""
        if not mods:
            return ""
        items = []
        for i, (t, a, e) in enumerate(mods):
            st = style if style != "mixed" else ["dotted", "nested"][i % 2]
            path = t.split(".") if t else []
            if a != "value":
                path = path + [a]
            if st == "dotted" or len(path) == 1:
                items.append("%s = %s" % (".".join(path), e))
            else:
                txt = "%s = %s" % (path[-1], e)
                for name in reversed(path[:-1]):
                    txt = "%s(%s)" % (name, txt)
                items.append(txt)
        return "(" + ", ".join(items) + ")"

    def text(self, style, local=None):
        """local: the helper classes are declared INSIDE model T (local classes) instead of beside it"""
        local = getattr(self, "local", False) if local is None else local
        txt = self._text(style)
        if not local:
            return txt
        head, tail = txt.split("model T\n", 1)
        return "model T\n" + "".join("  " + l + "\n" for l in head.strip().splitlines()) + tail

    def _text(self, style):
        m = self.mods
        tmod = ", ".join("%s = %s" % (a, e) for _t, a, e in m["type"])
        decl = {"p": [], "x": [], "v": []}
        for t, a, e in m["declA"]:
            decl[t].append((a, e))

        def declmods(name):
            at = ", ".join("%s = %s" % (a, e) for a, e in decl[name] if a != "value")
            val = [e for a, e in decl[name] if a == "value"]
            return ("(%s)" % at if at else "") + (" = %s" % val[0] if val else "")
        return """
type Volt = Real%s;
model A0
  parameter Real k = 0;
end A0;
model A
  extends A0%s;
  parameter Real p%s;
  parameter Real q = 10;
  Real x%s;
  Volt v%s;
equation
  x = p;
  v = q;
end A;
model B
  parameter Real q = 20;
  A a%s;
end B;
model C
  extends A%s;
  parameter Real r2 = 4;
end C;
model T
  parameter Real q = 30;
  parameter Real r = 3;
  B b%s;
  C c%s;
  A a1%s;
end T;
""" % ("(%s)" % tmod if tmod else "", self.spell(m["A.ext"], style), declmods("p") or " = 1", declmods("x"), declmods("v"), self.spell(m["B.a"], style), self.spell(m["C.ext"], style),
            self.spell(m["T.b"], style), self.spell(m["T.c"], style), self.spell(m["T.a1"], style))

    def reference(self):
        """flat variable -> attribute -> expression text (outermost wins; names resolved where written)"""
        out = {}

        def inst_A(prefix):
            for n in ("k", "p", "q", "x", "v"):
                out[prefix + n] = {}
            out[prefix + "q"]["value"] = "10"
            out[prefix + "k"]["value"] = "0"
            for t, a, e in self.mods["A.ext"]:
                out[prefix + t][a] = e
            if not any(t == "p" and a == "value" for t, a, _e in self.mods["declA"]):
                out[prefix + "p"]["value"] = "1"
            for _t, a, e in self.mods["type"]:
                out[prefix + "v"][a] = e
            for t, a, e in self.mods["declA"]:
                out[prefix + t][a] = e

        def apply(site, prefix, scope_prefix):
            for t, a, e in self.mods[site]:
                ee = e if e.isdigit() else scope_prefix + e
                out[prefix + t][a] = ee
        inst_A("b.a.")
        out["b.q"] = {"value": "20"}
        apply("B.a", "b.a.", "b.")
        apply("T.b", "b.", "")
        inst_A("c.")
        out["c.r2"] = {"value": "4"}
        apply("C.ext", "c.", "c.")
        apply("T.c", "c.", "")
        inst_A("a1.")
        apply("T.a1", "a1.", "")
        out["q"] = {"value": "30"}
        out["r"] = {"value": "3"}
        return out


def show(node):
    import pymoca.ast as ast
    if isinstance(node, ast.Primary):
        v = node.value
        if v is None:
            return None
        try:
            return str(int(v)) if float(v) == int(float(v)) else repr(float(v))
        except (TypeError, ValueError):
            return repr(v)
    if isinstance(node, ast.ComponentRef):
        return node.name + "".join("." + str(c) for c in node.child)
    return repr(node)[:60]


def flatten_text(txt):
    import pymoca.ast as ast
    import pymoca.parser
    from pymoca.tree import flatten
    tree = pymoca.parser.parse(txt)
    if tree is None:
        raise SyntaxError("generated text does not parse")
    flat = flatten(tree, ast.ComponentRef(name="T")).classes["T"]
    got = {}
    for name, s in flat.symbols.items():
        got[name] = {a: show(getattr(s, a)) for a in ATTRS + ["value"]}
        got[name] = {a: v for a, v in got[name].items() if v is not None}
    eqs = sorted(repr((show(e.left) if not isinstance(e.left, ast.Symbol) else "SYM " + e.left.name, show(e.right))) for e in flat.equations if isinstance(e, ast.Equation))
    return got, eqs


def judge(sc):
    want = sc.reference()
    results = {}
    for style in ("dotted", "nested", "mixed"):
        try:
            results[style] = flatten_text(sc.text(style))
        except SyntaxError:
            raise
        except Exception as e:  # rejected
            results[style] = "rejected: %s" % type(e).__name__
    if isinstance(results["dotted"], str):
        return sc.text("dotted"), "the dotted spelling is rejected (%s) although every target exists" % results["dotted"]
    got, eqs = results["dotted"]
    if set(got) != set(want):
        return sc.text("dotted"), "flat variables %s, expected %s" % (sorted(got), sorted(want))
    for name in sorted(want):
        for a in ATTRS + ["value"]:
            if got[name].get(a) != want[name].get(a):
                return sc.text("dotted"), "%s.%s is %s, the outermost applicable modification gives %s" % (name, a, got[name].get(a), want[name].get(a))
    base_eqs = [e for e in eqs]
    if len(base_eqs) != 6:
        return sc.text("dotted"), "flat model has %d equations, the hierarchy declares 6 (a modification became an equation?): %s" % (len(base_eqs), base_eqs[:8])
    for style in ("nested", "mixed"):
        if isinstance(results[style], str):
            continue           # rejected: allowed
        if results[style] != results["dotted"]:
            g2 = results[style][0]
            diff = [(n, a, got[n].get(a), g2.get(n, {}).get(a)) for n in got for a in ATTRS + ["value"] if got[n].get(a) != g2.get(n, {}).get(a)]
            return sc.text(style), "the %s spelling flattens to a different model than the dotted one: %s" % (style, diff[:3] or "equations differ")
    return None, None


# type definitions built on type definitions: the levels are Real <- V <- HV (<- HHV) <- the declaration; outermost wins
ALIAS_CASES = [
    ("type V = Real(max = 9); type HV = V(min = 100); model T HV h(min = 7, nominal = 5); equation h = 2; end T;",
     {"h": {"min": "7", "max": "9", "nominal": "5"}}),
    ("type V = Real(max = 9); type HV = V(min = 100); model T HV h; equation h = 2; end T;", {"h": {"min": "100", "max": "9"}}),
    ("type V = Real(min = 1, max = 9); type HV = V(min = 100); type HHV = HV(max = 50, nominal = 4); model T HHV h(nominal = 6); equation h = 2; end T;",
     {"h": {"min": "100", "max": "50", "nominal": "6"}}),
    ("type V = Real(max = 9); type HV = V(min = 100); model A HV h(start = 3); end A; model T A a(h(min = 8)); equation a.h = 2; end T;",
     {"a.h": {"min": "8", "max": "9", "start": "3"}}),
]


def judge_alias(txt, want):
    got, _eqs = flatten_text(txt)
    for name, attrs in want.items():
        if name not in got:
            return "flat variables %s" % sorted(got)
        for a in ATTRS + ["value"]:
            if got[name].get(a) != attrs.get(a):
                return "%s.%s is %s, the outermost applicable modification gives %s" % (name, a, got[name].get(a), attrs.get(a))
    return None


def main():
    logging.disable(logging.CRITICAL)
    payload = json.load(sys.stdin)
    tier, seed = payload.get("tier", "quick"), int(payload.get("seed", 0) or 0)
    rng = np.random.RandomState(seed)
    n_cases = 500 if tier == "thorough" else 80
    failures, n, seen, rejected = [], 0, set(), 0
    for txt, want in ALIAS_CASES:
        n += 1
        seen.add(txt)
        try:
            bad = judge_alias(txt, want)
        except BaseException as e:  # noqa
            bad = "%s: %s" % (type(e).__name__, str(e)[:300])
        if bad:
            failures.append({"class": "modifications", "input": {"model": txt, "flatten": "T"}, "observed": bad,
                             "expected": "every attribute from the outermost applicable modification"})
    for _ in range(n_cases):
        sc = Scenario(rng)
        sc.local = (n % 4 == 3)          # every fourth scenario declares the helper classes as local classes of T
        n += 1
        seen.add(sc.text("dotted"))
        try:
            txt, bad = judge(sc)
        except BaseException as e:  # noqa
            txt, bad = sc.text("dotted"), "%s: %s" % (type(e).__name__, str(e)[:300])
        if bad:
            failures.append({"class": "modifications", "input": {"model": txt, "flatten": "T"}, "observed": bad,
                             "expected": "every attribute from the outermost applicable modification, resolved where written; spellings equal or rejected"})
            if payload.get("mode") != "bounded":
                break
    if payload.get("mode") == "bounded":
        print(json.dumps({"performed": True, "cases": n, "distinct_nontrivial": len(seen), "failures": failures[:10],
                          "rule": "type definitions built on type definitions (two and three levels, with and without modifications on the declaration and on an enclosing component); random scenarios over a fixed 3-level hierarchy (type Volt, model A (extending A0 with a modification) with parameter/variable/alias-typed variable, B containing A, C extending A, T containing B, C, A): "
                                  "0-4 modifications per site (type definition, declarations, B's component, C's extends clause, T's three components) on value/start/min/max/nominal with literal or name "
                                  "expressions (names existing in inner and outer scopes), each scenario written in dotted, nested and alternating spelling, every fourth one with the helper classes declared as local classes of T; compared: every attribute of every flat variable with the "
                                  "reference (outermost wins, scope of writing), equation count, and equality of the spellings (a rejected spelling is allowed); distinct = distinct model texts",
                          "bound": "%d scenarios x 3 spellings" % n}))
    else:
        f = failures[0] if failures else None
        print(json.dumps({"performed": True, "reproduces": f is not None, "input": f and f["input"], "observed": f and f["observed"],
                          "expected": f and f["expected"], "input_class": "modifications"}))


if __name__ == "__main__":
    main()
