"""Verdicts, VIOLATION / KNOWN-FINDING lines, replay files and evidence (DESIGN.md section 3)."""
import json
import os
import subprocess
import sys
import time
from collections import OrderedDict

from . import solve
from .engine import Engine, SourceIndex

VERIF = os.path.dirname(os.path.dirname(os.path.abspath(__file__)))
REPO = os.environ.get("PYVC_REPO", "/repo")
VENV_PY = os.environ.get("PYVC_REPO_PYTHON", "/venv/bin/python")

BASE_ASSUMPTIONS = [
    "A1 integers are mathematical; floats are treated as mathematical reals (NaN/inf/rounding outside the encoding)",
    "A2 strings are z3 Unicode sequences; str.format / f-strings / re are uninterpreted unless stated",
    "A3 dict keeps insertion order; iteration order of an abstract set is arbitrary (all orders quantified)",
    "A4 object identity is a heap reference; == on repo classes without __eq__ is identity; id() injective on live objects",
    "A5 no monkey-patching / overriding of the functions under contract; attribute sets as in the class's __init__",
    "A6 partial correctness only (termination not proved)",
    "A7 recursion depth and memory unbounded",
    "the pyvc VC generator itself (ast -> z3 encoding of the stated Python subset) is trusted; it is cross-checked against CPython on concrete programs (pyvc.selfcheck) and by seeded property-breaking changes",
    "solver soundness: z3 5.1.0 (unsat answers), /usr/bin/cvc5 1.0.3 and /usr/bin/z3 4.8.12 for queries z3 5.1 leaves unknown",
]


def load_json(path, default):
    try:
        with open(path) as f:
            return json.load(f)
    except FileNotFoundError:
        return default


def run_replay(prop, payload, timeout=600):
    """Run /verif/replay/<prop>.py under the repo's interpreter against the real code."""
    script = os.path.join(VERIF, "replay", prop + ".py")
    if not os.path.exists(script):
        return {"performed": False, "reproduces": False, "note": "no replay script"}
    env = dict(os.environ)
    env["PYTHONPATH"] = os.path.join(REPO, "src") + os.pathsep + REPO + os.pathsep + os.path.join(VERIF, "replay")
    env["PYVC_REPO"] = REPO
    cmd = [VENV_PY, script]
    try:
        p = subprocess.run(cmd, input=json.dumps(payload), capture_output=True, text=True, timeout=timeout, env=env)
    except subprocess.TimeoutExpired:
        return {"performed": True, "reproduces": False, "note": "replay timed out", "cmd": " ".join(cmd)}
    out = p.stdout.strip().splitlines()
    res = None
    for line in reversed(out):
        if line.startswith("{"):
            try:
                res = json.loads(line)
                break
            except ValueError:
                pass
    if res is None:
        return {"performed": True, "reproduces": False, "cmd": " ".join(cmd),
                "note": "replay produced no verdict (exit %d): %s" % (p.returncode, (p.stdout + p.stderr)[-800:])}
    res.setdefault("performed", True)
    res["cmd"] = " ".join(cmd) + "  < payload"
    return res


class Check:
    def __init__(self, prop, module, tier, seed):
        self.prop, self.mod, self.tier, self.seed = prop, module, tier, seed
        self.t0 = time.time()
        self.lines = []
        self.violations = []
        self.known_seen = []
        self.undecided = []
        self.broken = []

    def say(self, s):
        print(s, flush=True)

    def run(self):
        mod = self.mod
        timeout_ms = int(os.environ.get("PYVC_TIMEOUT_MS", "20000" if self.tier == "quick" else "90000"))
        eng = Engine(SourceIndex(REPO))
        eng.tier = self.tier          # harnesses widen their enumerations in the thorough tier (eng.tier == "thorough")
        t_sym0 = time.time()
        harnesses = mod.HARNESSES if self.tier == "thorough" or not hasattr(mod, "QUICK_HARNESSES") else mod.QUICK_HARNESSES
        for name, h in harnesses:
            try:
                eng.explore(h, name)
            except Exception as e:  # engine crash: the checker is broken, never a violation
                import traceback
                self.broken.append("engine crashed in harness %s: %s" % (name, traceback.format_exc()[-1500:]))
        t_sym = time.time() - t_sym0
        solve.discharge(eng.obligations, timeout_ms)
        clauses = OrderedDict()
        for ob in eng.obligations:
            c = clauses.setdefault(ob.name, {"instances": 0, "proved": 0, "refuted": [], "unknown": [],
                                             "seconds": 0.0, "backends": set(), "harness": ob.path_id.split("#")[0]})
            c["instances"] += 1
            c["seconds"] += ob.result.seconds
            c["backends"].add(ob.result.backend)
            if ob.result.status == "PROVED":
                c["proved"] += 1
            elif ob.result.status == "REFUTED":
                c["refuted"].append(ob)
            else:
                c["unknown"].append(ob)
        self.eng, self.clauses, self.t_sym = eng, clauses, t_sym
        und_harness = {}
        for (h, pid, reason) in eng.undecided:
            und_harness.setdefault(h, []).append((pid, reason))
        baseline = set(load_json(os.path.join(VERIF, "baseline", "proved.json"), {}).get(self.prop, []))
        known = [k for k in load_json(os.path.join(VERIF, "known_findings.json"), []) if k.get("property") == self.prop]
        expected_cover = set(getattr(mod, "EXPECTED_COVER", ()))
        # ---- anti-vacuity
        if not eng.obligations:
            self.broken.append("zero obligations generated")
        missing_cover = expected_cover - eng.covered
        status = {}
        for name, c in clauses.items():
            if c["proved"] == c["instances"] and c["harness"] not in und_harness:
                status[name] = "PROVED"
            elif c["refuted"]:
                status[name] = "REFUTED"
            elif c["proved"] == c["instances"]:
                status[name] = "PATHS-UNDECIDED"
            else:
                status[name] = "UNPROVED"
        self.status = status
        # clauses that were proved on the unchanged tree but were not even generated now
        vanished = [n for n in baseline if n not in clauses]
        failing = [n for n, s in status.items() if s != "PROVED"]
        # ---- triage of every failing clause: replay on the real code
        search_cache = {}
        for name in failing:
            c = clauses[name]
            model = c["refuted"][0].result.model if c["refuted"] else None
            info = (c["refuted"] or c["unknown"] or [None])[0]
            solver_out = info.result.output if info is not None else ""
            backend = info.result.backend if info is not None else ""
            payload = {"property": self.prop, "obligation": name, "model": model, "tier": self.tier, "seed": self.seed,
                       "mode": "replay", "harness": c["harness"]}
            rep = run_replay(self.prop, payload)
            self.record(name, status[name], rep, model, solver_out, backend, name in baseline, known)
        for name in vanished:
            payload = {"property": self.prop, "obligation": name, "model": None, "tier": self.tier, "seed": self.seed,
                       "mode": "replay"}
            rep = run_replay(self.prop, payload)
            why = "obligation proved on the unchanged tree was not generated on this tree (path undecided or anchor moved): %s" % (
                "; ".join(r for _, rs in und_harness.items() for _, r in rs)[:600])
            self.record(name, "NOT-GENERATED", rep, None, why, "", True, known, allow_nofail=bool(und_harness))
        if missing_cover and not failing and not vanished:
            self.undecided.append("cover points not reached: %s" % sorted(missing_cover))
        for h, rs in und_harness.items():
            if not any(status.get(n) != "PROVED" for n in clauses if clauses[n]["harness"] == h) and not vanished:
                self.undecided.append("harness %s has undecided paths: %s" % (h, rs[:3]))
        # ---- bounded stand-in on the real code (always; labelled bounded, never counted as proved)
        self.bounded = None
        if hasattr(mod, "BOUNDED") and mod.BOUNDED:
            payload = {"property": self.prop, "mode": "bounded", "tier": self.tier, "seed": self.seed}
            rep = run_replay(self.prop, payload, timeout=1500 if self.tier == "quick" else 7200)
            self.bounded = rep
            seen_cls = set()
            for f in rep.get("failures", []):
                if f.get("class") in seen_cls:
                    continue
                seen_cls.add(f.get("class"))
                self.record("bounded/" + f.get("class", "case"), "BOUNDED-FAIL",
                            {"performed": True, "reproduces": True, "input": f.get("input"), "observed": f.get("observed"),
                             "expected": f.get("expected"), "input_class": f.get("class")},
                            None, "bounded stand-in on the real code", "cpython", False, known)
            if not rep.get("performed", True) or "cases" not in rep:
                self.broken.append("bounded stand-in did not run: %s" % rep.get("note"))
        # ---- thorough tier: validate the checker itself on this property (scripted mutants + seeded changes on scratch worktrees)
        self.selftest = None
        if self.tier == "thorough" and os.path.realpath(REPO) == "/repo" and not os.environ.get("PYVC_NO_SELFTEST"):
            import subprocess
            p = subprocess.run([sys.executable, os.path.join(VERIF, "selftest", "run.py"), self.prop, "-j", "4"], capture_output=True, text=True,
                               env=dict(os.environ, PYVC_NO_SELFTEST="1", VERIF_TIER="quick"))
            lines = [l for l in p.stdout.splitlines() if l.startswith(self.prop)]
            mism = [l for l in lines if "MISMATCH" in l or "DOES-NOT-APPLY" in l or "ANCHOR-NOT" in l]
            self.selftest = {"jobs": len(lines), "mismatches": len(mism), "mismatch_lines": mism[:10],
                             "cmd": "selftest/run.py %s -j 4" % self.prop,
                             "label": "mutation self-test of the checker (NOT a statement about pymoca): every property-breaking edit must be flagged, every harmless one must pass"}
            if mism:
                self.broken.append("mutation self-test: %d of %d scripted / seeded changes are not judged as expected: %s" % (len(mism), len(lines), "; ".join(m_[:120] for m_ in mism[:3])))
        return self.finish()

    def record(self, name, st, rep, model, solver_out, backend, in_baseline, known, allow_nofail=True):
        os.makedirs(os.path.join(VERIF, "out", "replays", self.prop), exist_ok=True)
        fn = os.path.join("out", "replays", self.prop, name.replace("/", "_") + ".json")
        fx = self.eng.source.extracted
        doc = {"property": self.prop, "obligation": name, "verdict": st, "functions": fx,
               "solver": {"backend": backend, "output": solver_out}, "countermodel": model, "replay": rep,
               "tree": REPO}
        with open(os.path.join(VERIF, fn), "w") as f:
            json.dump(doc, f, indent=1, default=str)
        icls = rep.get("input_class")
        for k in known:
            if k.get("status") == "open" and k.get("obligation") in (name, "*") and \
                    (k.get("input_class") in (None, "*") or k.get("input_class") == icls):
                if rep.get("reproduces"):
                    self.known_seen.append((k, fn))
                    return
        if rep.get("reproduces"):
            self.violations.append((name, fn, ""))
        elif name in getattr(self.mod, "SOFT", ()):
            # a sufficient-condition obligation (see the contract module): failing it without a
            # failing input on the real code is undecided, not a violation
            self.undecided.append("%s: soft obligation not discharged and no failing input found" % name)
        elif in_baseline and allow_nofail:
            self.violations.append((name, fn, " no-failing-input-found"))
        else:
            self.undecided.append("%s: %s (%s)" % (name, st, (solver_out or "")[:200]))

    def finish(self):
        wall = time.time() - self.t0
        eng, clauses = self.eng, self.clauses
        n_cl = len(clauses)
        n_proved = sum(1 for s in self.status.values() if s == "PROVED")
        inst = len(eng.obligations)
        inst_proved = sum(1 for o in eng.obligations if o.result.status == "PROVED")
        solver_s = sum(o.result.seconds for o in eng.obligations)
        backends = {}
        for o in eng.obligations:
            backends[o.result.backend] = backends.get(o.result.backend, 0) + 1
        samples = []
        for ob in eng.obligations[:: max(1, len(eng.obligations) // 4)][:4]:
            samples.append({"obligation": ob.name, "path": ob.path_id, "status": ob.result.status,
                            "backend": ob.result.backend, "seconds": round(ob.result.seconds, 3),
                            "claim": str(ob.claim)[:400], "n_assumptions": len(ob.assumptions)})
        mod = self.mod
        # the level recorded is the level claimed for this property in MANIFEST.json (regenerated by
        # tools/gen_manifest.py: the module's LEVEL, lowered to "other" while a recorded finding is open), and
        # "proof" only when every obligation of THIS run was discharged; a run that falls short says "other"
        # (and exits non-zero unless what fell short is exactly a listed known finding)
        level = getattr(mod, "LEVEL", "proof")
        for c in load_json(os.path.join(VERIF, "MANIFEST.json"), {}).get("checks", []):
            if c.get("property_id") == self.prop:
                level = c.get("level_claimed", {}).get("category", level)
        if self.known_seen or n_proved < n_cl or self.violations:
            level_out = "other"
        else:
            level_out = level
        cov = {
            "obligations": n_cl, "discharged": n_proved,
            "obligation_instances": inst, "instances_discharged": inst_proved,
            "checker_cmd": "./check %s --tier %s" % (self.prop, self.tier),
            "trusted_base": list(getattr(mod, "TRUSTED", [])),
            "functions_under_contract": eng.source.extracted,
            "paths_explored": eng.paths_explored, "symbolic_execution_s": round(self.t_sym, 2),
            "solver_s": round(solver_s, 2), "backends": backends,
            "per_obligation": {n: {"status": self.status[n], "instances": c["instances"],
                                   "seconds": round(c["seconds"], 3), "backends": sorted(c["backends"])}
                               for n, c in clauses.items()},
            "dropped_or_abstracted": sorted(eng.abstractions) + list(getattr(mod, "DROPPED", [])),
            "cover_points_reached": sorted(eng.covered),
            "samples": samples,
            "explanation": getattr(mod, "EXPLANATION", ""),
            "selftest": getattr(self, "selftest", None),
            "known_findings_seen": [k.get("summary") for k, _ in self.known_seen],
            "undecided": self.undecided, "checker_problems": self.broken,
        }
        if self.bounded is not None:
            cov["bounded"] = {k: v for k, v in self.bounded.items() if k not in ("failures",)}
            cov["bounded"]["label"] = "bounded stand-in on the real code; NOT counted in obligations/discharged"
            cov["evaluations"] = int(self.bounded.get("cases", 0)) or 1
            cov["distinct_nontrivial"] = int(self.bounded.get("distinct_nontrivial", self.bounded.get("cases", 0)))
            cov["rule"] = self.bounded.get("rule", "")
        if level_out == "other" and not cov["explanation"]:
            cov["explanation"] = "not every obligation is discharged on this tree (see per_obligation / known_findings_seen)"
        ev = {"property_id": self.prop, "tier": self.tier, "seed": self.seed, "level": level_out,
              "coverage": cov, "assumptions": BASE_ASSUMPTIONS + list(getattr(mod, "ASSUMPTIONS", [])),
              "wall_s": round(wall, 2), "violations": len(self.violations)}
        # evidence/<id>.json describes the tree under /repo; a run against another tree (selftest mutants, seeds:
        # PYVC_EVIDENCE_DIR is set by selftest/run.py) must not overwrite it
        evdir = os.environ.get("PYVC_EVIDENCE_DIR") or (
            os.path.join(VERIF, "evidence") if os.path.realpath(REPO) == "/repo" else os.path.join(VERIF, "out", "evidence_other_tree"))
        os.makedirs(evdir, exist_ok=True)
        with open(os.path.join(evdir, self.prop + ".json"), "w") as f:
            json.dump(ev, f, indent=1, default=str)
        self.say("%s tier=%s: %d/%d obligations discharged (%d/%d instances), %d paths, solver %.1fs, wall %.1fs" % (
            self.prop, self.tier, n_proved, n_cl, inst_proved, inst, eng.paths_explored, solver_s, wall))
        if self.bounded is not None:
            self.say("%s bounded stand-in: %s cases, %d failures" % (self.prop, self.bounded.get("cases"), len(self.bounded.get("failures", []))))
        for k, fn in self.known_seen:
            self.say("KNOWN-FINDING: property=%s %s (replay=%s)" % (self.prop, k.get("summary"), fn))
        if self.broken and not self.violations:
            for b in self.broken:
                self.say("CHECKER-BROKEN: %s" % b)
            return 3
        for b in self.broken:
            self.say("note: part of the checker did not run: %s" % b[:300])
        if self.violations:
            for name, fn, tail in self.violations:
                self.say("failed obligation: %s" % name)
                self.say("VIOLATION property=%s replay=%s%s" % (self.prop, fn, tail))
            return 1
        if self.undecided:
            for u in self.undecided:
                self.say("UNDECIDED: %s" % u)
            return 2
        return 0


def update_baseline(prop, status):
    path = os.path.join(VERIF, "baseline", "proved.json")
    os.makedirs(os.path.dirname(path), exist_ok=True)
    cur = load_json(path, {})
    cur[prop] = sorted(n for n, s in status.items() if s == "PROVED")
    with open(path, "w") as f:
        json.dump(cur, f, indent=1, sort_keys=True)
