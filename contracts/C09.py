"""C09 -- connections produce exactly the Modelica connection-set equations.

Function under contract: pymoca.tree.expand_connectors (real source, whole function and fragments of it),
with flatten_class (of the connector class) and find_class under assumed contracts.

  whole function   for every sequence of 1..3 connect clauses over four connectors (all 258 sequences, two orientations), every
                   inside/outside assignment from a family of three, plus curated longer graphs (chain, star,
                   cycle, merge-of-separate-sets, redundant connects): the emitted equations and the reference
                   connection-set equations (potentials equal per set; sum of inside flows minus sum of outside
                   flows = 0 per set; flows of connectors in no connection = 0) imply each other for ALL real
                   values of the variables (two LRA validity obligations per graph, z3); connector symbols are
                   stripped; ordinary equations are kept, in order.
  merge step       (induction over the clause sequence, any length) the real `flow` branch executed from every
                   well-formed table state over <= 4 keys: the table stays well-formed (every key maps to the
                   one dict object that contains it) and its partition is the old one with the two ends' sets
                   merged; nothing else moves.
  emission step    from every well-formed table over <= 5 keys and every sign pattern: the emitted equations and the sets'
                   balances sum(inside) - sum(outside) = 0 imply each other.
  inside flag      the real fragment of flatten_symbols that marks a connect clause's ends: inside iff the reference
                   had a component prefix where the clause was written; an existing mark is kept.
"""
import itertools

import z3

from pyvc import ops
from pyvc.values import Ext, NoOp, PyRaise, Unsupported, VBound, VDict, VList, VObj, stub

from .api_common import ModuleStub
from .ast_common import AstFactory, base_modules

AST = "pymoca.ast"
TREE = "pymoca.tree"
POT, FLOW = ("v",), ("i",)


def np_all(eng, xs):
    r = True
    for x in (xs.items if isinstance(xs, VList) else xs):
        if ops.is_sym(x):
            raise Unsupported("np.all over symbolic flags")
        r = r and bool(x)
    return r


def setup(eng):
    base_modules(eng)
    eng.ext_modules["numpy"] = ModuleStub("numpy", {"all": stub(np_all), "any": stub(lambda eng, xs: not np_all(eng, [not x for x in (xs.items if isinstance(xs, VList) else xs)]))})
    A = AstFactory(eng)
    return A


def odict(pairs=()):
    d = VDict()
    d.ordered = True
    for k, v in pairs:
        d.keys.append(k)
        d.vals.append(v)
    return d


def real_sym(A, name, prefixes=()):
    return A.new("Symbol", name=name, type=A.ref("Real"), prefixes=VList(list(prefixes)))


POT2, FLOW2 = ("T", "v"), ("Phi", "Q")      # the second class has several flow variables (the statement: "several potential and flow variables")


def members(c, second=()):
    return (POT2, FLOW2) if c in second else (POT, FLOW)


def build_node(A, conns, extra_flow_conns=(), second=()):
    """flat class as flatten_symbols leaves it: connector symbols carrying __connector_type, their leaf symbols.
    Connectors named in `second` are of ANOTHER connector class with the same simple name (say Thermal.Pin beside
    Electrical.Pin) and other members."""
    eng = A.eng

    def conn_class(pot, flow):
        ct = A.new("Class", name="Pin", type="connector")
        for v in pot:
            ops.setitem(eng, ct.fields["symbols"], v, real_sym(A, v))
        for f in flow:
            ops.setitem(eng, ct.fields["symbols"], f, real_sym(A, f, ["flow"]))
        ops.setitem(eng, ct.fields["symbols"], "k", real_sym(A, "k", ["parameter"]))
        return ct
    ctype = conn_class(POT, FLOW)
    ctype2 = conn_class(POT2, FLOW2) if second else None
    node = A.new("Class", name="M", type="model")
    for c in list(conns) + list(extra_flow_conns):
        pot, flow = members(c, second)
        cs = A.new("Symbol", name=c, type=A.ref("Pin"))
        cs.fields["__connector_type"] = ctype2 if c in second else ctype
        ops.setitem(eng, node.fields["symbols"], c, cs)
        for v in pot:
            ops.setitem(eng, node.fields["symbols"], c + "." + v, real_sym(A, c + "." + v))
        for f in flow:
            ops.setitem(eng, node.fields["symbols"], c + "." + f, real_sym(A, c + "." + f, ["flow"]))
        ops.setitem(eng, node.fields["symbols"], c + ".k", real_sym(A, c + ".k", ["parameter"]))
    if second:
        return node, (ctype, ctype2)
    return node, ctype


def clause(A, l, r, inner, flags=None):
    c = A.new("ConnectClause", left=A.ref(l), right=A.ref(r))
    c.fields["__left_inner"] = inner[l] if flags is None else flags[0]
    c.fields["__right_inner"] = inner[r] if flags is None else flags[1]
    return c


class Sem:
    """denotation of flat equations over the reals"""

    def __init__(self):
        self.vars = {}

    def var(self, name):
        if name not in self.vars:
            self.vars[name] = z3.Real("x_" + name)
        return self.vars[name]

    def term(self, e):
        cn = e.cls.name
        if cn in ("ComponentRef", "Symbol"):
            return self.var(e.fields["name"])
        if cn == "Primary":
            return z3.RealVal(e.fields["value"])
        if cn == "Expression":
            op, args = e.fields["operator"], [self.term(a) for a in e.fields["operands"].items]
            if op == "-" and len(args) == 1:
                return -args[0]
            if op == "+" and len(args) == 2:
                return args[0] + args[1]
            if op == "-" and len(args) == 2:
                return args[0] - args[1]
        raise Unsupported("equation term %s" % cn)

    def eq(self, e):
        return self.term(e.fields["left"]) == self.term(e.fields["right"])


def reference(sem, conns, clauses, inner, all_flow_conns, second=()):
    """Modelica connection sets: potentials equal within a set; sum(inside flows) - sum(outside flows) = 0; unconnected flows zero"""
    parent = {}

    def find(x):
        parent.setdefault(x, x)
        while parent[x] != x:
            x = parent[x]
        return x
    for cl in clauses:
        l, r = cl[0], cl[1]
        fl, fr = (inner[l], inner[r]) if len(cl) == 2 else (cl[2], cl[3])
        a, b = find((l, fl)), find((r, fr))
        if a != b:
            parent[b] = a
    sets = {}
    for x in list(parent):
        sets.setdefault(find(x), []).append(x)
    eqs = []
    for mem in sets.values():
        pot, flow = members(mem[0][0], second)
        for v in pot:
            first = mem[0][0]
            for m, _fl in mem[1:]:
                eqs.append(sem.var(first + "." + v) == sem.var(m + "." + v))
        for f in flow:
            eqs.append(z3.Sum([sem.var(m + "." + f) if fl else -sem.var(m + "." + f) for m, fl in mem]) == 0)
    connected = {m for ms in sets.values() for m, _ in ms}
    for c in all_flow_conns:
        if c not in connected:
            for f in members(c, second)[1]:
                eqs.append(sem.var(c + "." + f) == 0)
    return eqs, sets


CONNS = ["r1.p", "r2.n", "q", "r3.p"]
PAIRS = list(itertools.combinations(CONNS, 2))
FLAG_FAMILY = [
    {"r1.p": True, "r2.n": True, "q": False, "r3.p": True},
    {"r1.p": False, "r2.n": True, "q": False, "r3.p": True},
    {"r1.p": False, "r2.n": False, "q": False, "r3.p": False},
]
CURATED = [
    ("chain5", ["a.p", "b.p", "c.p", "d.p", "e"], [("a.p", "b.p"), ("b.p", "c.p"), ("c.p", "d.p"), ("d.p", "e")]),
    ("star", ["h", "a.p", "b.p", "c.p"], [("h", "a.p"), ("h", "b.p"), ("h", "c.p")]),
    ("cycle4", ["a.p", "b.p", "c.p", "d.p"], [("a.p", "b.p"), ("b.p", "c.p"), ("c.p", "d.p"), ("d.p", "a.p")]),
    ("merge-separate-sets", ["a.n", "b.p", "c.n", "d.p"], [("a.n", "b.p"), ("c.n", "d.p"), ("b.p", "c.n")]),
    ("merge-then-redundant", ["a.n", "b.p", "c.n", "d.p"], [("a.n", "b.p"), ("c.n", "d.p"), ("b.p", "c.n"), ("a.n", "d.p"), ("d.p", "a.n")]),
    ("two-merges", ["a.p", "b.p", "c.p", "d.p", "e.p", "f"], [("a.p", "b.p"), ("c.p", "d.p"), ("e.p", "f"), ("d.p", "e.p"), ("b.p", "c.p")]),
    ("same-pair-twice", ["a.p", "q"], [("a.p", "q"), ("a.p", "q")]),
    ("reversed-pair", ["a.p", "q"], [("a.p", "q"), ("q", "a.p")]),
]


def install_contracts(eng, A, ctype):
    ctypes = ctype if isinstance(ctype, tuple) else (ctype,)

    def flatten_class(eng, args, kwargs):
        if not any(args[0] is c for c in ctypes):
            raise Unsupported("flatten_class of something else than a connector class")
        return args[0]

    def find_class(eng, args, kwargs):
        raise PyRaise(eng.make_exc("FoundElementaryClassError", ""))
    eng.call_contracts["flatten_class"] = flatten_class
    eng.call_contracts["Class.find_class"] = find_class


def run_graph(eng, label, conns, clauses, inner, lonely, second=()):
    A = setup(eng)
    node, ctype = build_node(A, conns, lonely, second)
    install_contracts(eng, A, ctype)
    plain = A.new("Equation", left=A.ref("t"), right=A.prim(1))
    plain2 = A.new("Equation", left=A.ref("u"), right=A.prim(2))
    eqs = [plain] + [clause(A, cl[0], cl[1], inner, None if len(cl) == 2 else (cl[2], cl[3])) for cl in clauses] + [plain2]
    node.fields["equations"] = VList(eqs)
    f = eng.find_function(TREE, "expand_connectors")
    eng.call(f, [node], {})
    out = node.fields["equations"].items
    sem = Sem()
    emitted = [sem.eq(e) for e in out if e is not plain and e is not plain2]
    ref, sets = reference(sem, conns, clauses, inner, list(conns) + list(lonely), second)
    E, R = z3.And(emitted), z3.And(ref)
    info = dict(graph=label, clauses=["connect(%s, %s)" % (c[0], c[1]) for c in clauses], outside=[c for c in conns if not inner[c]])
    # (P) same solutions as the connection-set semantics, for all real values of the variables
    eng.prove("whole.emitted_equations_imply_connection_set_equations", z3.Implies(E, R), **info)
    eng.prove("whole.connection_set_equations_imply_emitted_equations", z3.Implies(R, E), **info)
    eng.prove("whole.ordinary_equations_kept_in_order", z3.BoolVal([e for e in out if e is plain or e is plain2] == [plain, plain2] and out[0] is plain))
    eng.prove("whole.connector_symbols_stripped", z3.BoolVal(all("__connector_type" not in s.fields for s in node.fields["symbols"].vals) and
                                                              all((c + "." + members(c, second)[1][0]) in node.fields["symbols"].keys for c in conns)))


def h_whole_sequences(eng):
    n = 1 + eng.choice(3)
    orient = eng.choice(2)                      # clauses written left-to-right, or alternately reversed
    clauses = []
    for j in range(n):
        l, r = PAIRS[eng.choice(len(PAIRS))]
        if orient and j % 2 == 0:
            l, r = r, l
        clauses.append((l, r))
    inner = FLAG_FAMILY[eng.choice(len(FLAG_FAMILY))]
    used = {c for cl in clauses for c in cl}
    lonely = [c for c in CONNS if c not in used]
    eng.input("clauses", clauses)
    eng.input("inside", inner)
    eng.cover("whole.n%d" % n)
    if lonely:
        eng.cover("whole.unconnected_connector")
    run_graph(eng, "seq%d" % n, [c for c in CONNS if c in used], clauses, inner, lonely)


# one connector seen from both sides: as an outside connector in the connect clauses of its own component (flag False) and as an
# inside connector in the enclosing model (flag True) -- two different connection sets that contain "the same" variable
HIERARCHICAL = [
    ("wire-up-first", ["a.up", "a.down", "s.p"], [("a.up", "a.down", False, False), ("a.up", "s.p", True, True)]),
    ("wire-system-first", ["a.up", "a.down", "s.p"], [("a.up", "s.p", True, True), ("a.up", "a.down", False, False)]),
    ("wire-both-ends", ["a.up", "a.down", "s.p", "t.p"], [("a.up", "a.down", False, False), ("s.p", "a.up", True, True), ("a.down", "t.p", True, True)]),
    ("star-merge-outside", ["a.up", "a.down", "b.up", "s.p"], [("a.up", "a.down", False, False), ("a.up", "s.p", True, True), ("b.up", "s.p", True, True), ("b.up", "a.down", False, False)]),
]


def h_whole_hierarchical(eng):
    label, conns, clauses = HIERARCHICAL[eng.choice(len(HIERARCHICAL))]
    eng.input("graph", label)
    eng.cover("hier." + label)
    run_graph(eng, label, conns, clauses, {c: True for c in conns}, ["z.p"])


# two connector classes with the same simple name and different members in one model (Electrical.Pin beside Thermal.Pin):
# every clause is expanded with the members of the class of ITS connectors, whichever class was seen first
TWO_CLASSES = [
    ("first-then-second", ["a.p", "b.p", "c.h", "d.h"], [("a.p", "b.p"), ("c.h", "d.h")]),
    ("second-then-first", ["a.p", "b.p", "c.h", "d.h"], [("c.h", "d.h"), ("a.p", "b.p")]),
    ("interleaved", ["a.p", "b.p", "e.p", "c.h", "d.h", "f.h"], [("a.p", "b.p"), ("c.h", "d.h"), ("b.p", "e.p"), ("f.h", "d.h")]),
]


def h_two_connector_classes(eng):
    label, conns, clauses = TWO_CLASSES[eng.choice(len(TWO_CLASSES))]
    pattern = eng.choice(2)
    inner = {c: (True if pattern == 0 else c[0] in "ac") for c in conns}
    second = [c for c in conns + ["z.h"] if c.endswith(".h")]
    eng.input("graph", label)
    eng.input("inside", inner)
    eng.cover("twoclasses." + label)
    run_graph(eng, label, conns, clauses, inner, ["z.p", "z.h"], second)


def h_whole_curated(eng):
    label, conns, clauses = CURATED[eng.choice(len(CURATED))]
    pattern = eng.choice(3)
    inner = {c: (True if pattern == 0 else (("." in c) if pattern == 1 else False)) for c in conns}
    eng.input("graph", label)
    eng.input("inside", inner)
    eng.cover("curated." + label)
    run_graph(eng, label, conns, clauses, inner, ["z.p"])


# ------------------------------------------------------------------------------------------------ merge step (induction)
def set_partitions(xs):
    if not xs:
        yield []
        return
    first, rest = xs[0], xs[1:]
    for p in set_partitions(rest):
        for i in range(len(p)):
            yield p[:i] + [[first] + p[i]] + p[i + 1:]
        yield [[first]] + p


def table_from_partition(A, parts, inner):
    """a well-formed flow_connections table: every key maps to the ONE dict of its set"""
    table = odict()
    dicts = []
    for part in parts:
        d = odict()
        for name in part:
            key = (name + ".i", (), inner[name])
            d.keys.append(key)
            d.vals.append((A.ref(name + ".i"), inner[name]))
        dicts.append(d)
        for key in d.keys:
            table.keys.append(key)
            table.vals.append(d)
    return table, dicts


def well_formed(table):
    for k, d in zip(table.keys, table.vals):
        if not isinstance(d, VDict) or k not in d.keys:
            return "key %r is not a member of its own set" % (k,)
        for k2 in d.keys:
            if k2 not in table.keys or table.vals[table.keys.index(k2)] is not d:
                return "member %r of the set of %r maps to another dict object" % (k2, k)
        for k2, val in zip(d.keys, d.vals):
            if not (isinstance(val, tuple) and len(val) == 2 and isinstance(val[0], VObj) and val[0].fields["name"] == k2[0] and val[1] is k2[2]):
                return "value stored for %r is not (reference to it, its inside flag)" % (k2,)
    return None


def partition_of(table):
    seen, out = [], []
    for d in table.vals:
        if not any(d is s for s in seen):
            seen.append(d)
            out.append(frozenset(d.keys))
    return set(out)


def flow_branch_selector(fn):
    import ast as _ast
    for n in _ast.walk(fn):
        if isinstance(n, _ast.If) and isinstance(n.test, _ast.Compare) and isinstance(n.test.left, _ast.Attribute) and n.test.left.attr == "prefixes" and \
                isinstance(n.test.comparators[0], _ast.List) and [getattr(e, "value", None) for e in n.test.comparators[0].elts] == ["flow"]:
            return n.body
    raise KeyError("flow branch")


def h_merge_step(eng):
    A = setup(eng)
    universe = ["a", "b", "c", "d"]
    k = eng.choice(len(universe) + 1)          # how many keys are already in the table
    present = universe[:k]
    parts_all = list(set_partitions(present))
    parts = parts_all[eng.choice(len(parts_all))]
    ends = ["a", "b", "c", "d", "e", "f"]
    l = ends[eng.choice(len(ends))]
    r = ends[eng.choice(len(ends))]
    if l == r:
        eng.cover("merge.self_connection")
    # keys carry the inside flag: an end whose flag differs from the stored key's is a different node
    other_flag = eng.choice(2)
    inner = {n: True for n in ends}
    table, dicts = table_from_partition(A, parts, inner)
    if other_flag:
        inner = dict(inner)
        inner[l] = False
        eng.cover("merge.same_name_other_flag")
    pre_wf = well_formed(table)
    if pre_wf:
        raise Unsupported("harness built an ill-formed table: " + pre_wf)
    before = partition_of(table)
    disconnected = odict([(n + ".i", real_sym(A, n + ".i", ["flow"])) for n in ends])
    eq = clause(A, l, r, inner)
    left = A.ref(l + ".i")
    right = A.ref(r + ".i")
    eng.input("table", [sorted(p) for p in parts])
    eng.input("connect", [l, r])
    eng.cover("merge.step")
    lk, rk = (l + ".i", (), inner[l]), (r + ".i", (), inner[r])
    in_l = next((s for s in before if lk in s), frozenset())
    in_r = next((s for s in before if rk in s), frozenset())
    if in_l and in_r and in_l != in_r:
        eng.cover("merge.two_existing_sets")
    if in_l and in_l == in_r:
        eng.cover("merge.redundant")
    if not in_l and not in_r:
        eng.cover("merge.new_set")
    eng.exec_fragment(TREE, "expand_connectors", flow_branch_selector,
                      {"equation": eq, "left": left, "right": right, "left_name": l + ".i", "right_name": r + ".i", "flow_connections": table,
                       "disconnected_flow_variables": disconnected, "OrderedDict": eng.module_global(eng.load_module(TREE), "OrderedDict")}, label="flow-branch")
    bad = well_formed(table)
    # (P) representation invariant preserved
    eng.prove("merge.table_stays_well_formed", z3.BoolVal(bad is None), problem=bad)
    # (P) abstract view: the two ends' sets (or singletons) are merged, every other set is untouched
    merged = frozenset(set(in_l) | set(in_r) | {lk, rk})
    want = {s for s in before if s != in_l and s != in_r} | {merged}
    got = partition_of(table)
    eng.prove("merge.partition_is_old_partition_with_the_two_sets_joined", z3.BoolVal(got == want), got=sorted(map(sorted, map(list, got)), key=str), want=sorted(map(sorted, map(list, want)), key=str))
    eng.prove("merge.connected_flows_leave_the_unconnected_list", z3.BoolVal(sorted(disconnected.keys) == sorted(n + ".i" for n in ends if n not in (l, r))))


# ------------------------------------------------------------------------------------------------ emission step
def emission_selector(fn):
    import ast as _ast
    body = fn.body
    i = next(i for i, st in enumerate(body) if isinstance(st, _ast.Assign) and isinstance(st.targets[0], _ast.Name) and st.targets[0].id == "processed")
    loop = body[i + 1]
    if not isinstance(loop, _ast.For):
        raise KeyError("emission loop")
    return body[i:i + 2]


def h_emission(eng):
    A = setup(eng)
    universe = ["a", "b", "c", "d", "e"]
    k = 1 + eng.choice(len(universe))
    present = universe[:k]
    parts_all = list(set_partitions(present))
    parts = parts_all[eng.choice(len(parts_all))]
    pattern = eng.choice(4)
    inner = {n: [True, False, i % 2 == 0, i == 0][pattern] for i, n in enumerate(universe)}
    table, dicts = table_from_partition(A, parts, inner)
    node = A.new("Class", name="M", type="model")
    eng.input("table", [sorted(p) for p in parts])
    eng.input("inside", {n: inner[n] for n in present})
    eng.cover("emit.step")
    if pattern == 1:
        eng.cover("emit.all_outside")
    eng.exec_fragment(TREE, "expand_connectors", emission_selector, {"flow_connections": table, "node": node}, label="flow-sum-emission")
    out = node.fields["equations"].items
    sem = Sem()
    if True:
        # every emitted equation is the balance of SOME set and every set's balance follows (duplicates would keep the solution space)
        ref = [z3.Sum([sem.var(n + ".i") if inner[n] else -sem.var(n + ".i") for n in part]) == 0 for part in parts]
        emitted = [sem.eq(e) for e in out]
        eng.prove("emit.equations_imply_flow_balances", z3.Implies(z3.And(emitted), z3.And(ref)))
        eng.prove("emit.flow_balances_imply_equations", z3.Implies(z3.And(ref), z3.And(emitted)))


# ------------------------------------------------------------------------------------------------ classification of connector variables
def h_variable_kinds(eng):
    A = setup(eng)
    kinds = [([], "potential"), (["input"], "potential"), (["output"], "potential"), (["flow"], "flow"), (["parameter"], "skipped"), (["constant"], "skipped"),
             (["discrete"], "rejected")]
    prefixes, want = kinds[eng.choice(len(kinds))]
    ctype = A.new("Class", name="Pin", type="connector")
    ops.setitem(eng, ctype.fields["symbols"], "w", real_sym(A, "w", prefixes))
    node = A.new("Class", name="M", type="model")
    inner = {"a.p": True, "q": False}
    for c in ("a.p", "q"):
        cs = A.new("Symbol", name=c, type=A.ref("Pin"))
        cs.fields["__connector_type"] = ctype
        ops.setitem(eng, node.fields["symbols"], c, cs)
        ops.setitem(eng, node.fields["symbols"], c + ".w", real_sym(A, c + ".w", prefixes))
    install_contracts(eng, A, ctype)
    node.fields["equations"] = VList([clause(A, "a.p", "q", inner)])
    eng.input("prefixes", prefixes)
    eng.cover("kinds." + want)
    raised = None
    try:
        eng.call(eng.find_function(TREE, "expand_connectors"), [node], {})
    except PyRaise as e:
        raised = e
    out = node.fields["equations"].items
    sem = Sem()
    a, q = sem.var("a.p.w"), sem.var("q.w")
    emitted = z3.And([sem.eq(e) for e in out]) if out else z3.BoolVal(True)
    if want == "potential":
        ok = raised is None and len(out) >= 1
        eng.prove("kinds.potential_variables_are_equated", z3.BoolVal(False) if not ok else z3.And(z3.Implies(emitted, a == q), z3.Implies(a == q, emitted)))
    elif want == "flow":
        ok = raised is None and len(out) >= 1
        eng.prove("kinds.flow_variables_are_balanced_inside_minus_outside", z3.BoolVal(False) if not ok else
                  z3.And(z3.Implies(emitted, a - q == 0), z3.Implies(a - q == 0, emitted)))
    elif want == "skipped":
        eng.prove("kinds.parameters_and_constants_produce_no_equation", z3.BoolVal(raised is None and len(out) == 0))
    else:
        eng.prove("kinds.other_prefixes_are_rejected_loudly", z3.BoolVal(raised is not None))


def inside_flag_selector(fn):
    import ast as _ast
    for n in _ast.walk(fn):
        if isinstance(n, _ast.If) and isinstance(n.test, _ast.Call) and getattr(n.test.func, "id", "") == "isinstance" and \
                isinstance(n.test.args[1], _ast.Attribute) and n.test.args[1].attr == "ConnectClause" and getattr(n.test.args[0], "id", "") == "flat_equation":
            return [n]
    raise KeyError("inside-flag block")


def h_inside_flag(eng):
    A = setup(eng)
    lchild, rchild, marked = eng.choice(2), eng.choice(2), eng.choice(2)
    left = A.ref("a", child=VList([A.ref("p")])) if lchild else A.ref("q")
    right = A.ref("b", child=VList([A.ref("n")])) if rchild else A.ref("r")
    written = A.new("ConnectClause", left=left, right=right)
    flat = A.new("ConnectClause", left=A.ref("a.p" if lchild else "q"), right=A.ref("b.n" if rchild else "r"))
    if marked:                       # a clause coming up from a lower level keeps the marks it got there
        flat.fields["__left_inner"] = not lchild
        flat.fields["__right_inner"] = not rchild
    eng.input("clause", "connect(%s, %s)" % ("a.p" if lchild else "q", "b.n" if rchild else "r"))
    eng.cover("flag.marked" if marked else "flag.fresh")
    eng.exec_fragment(TREE, "flatten_symbols", inside_flag_selector, {"flat_equation": flat, "equation": written, "ast": eng.load_module(AST)}, label="inside-flag")
    if marked:
        eng.prove("flag.marks_from_a_lower_level_are_kept", z3.BoolVal(flat.fields.get("__left_inner") is (not lchild) and flat.fields.get("__right_inner") is (not rchild)))
    else:
        # (P) inside iff the reference names a connector OF A COMPONENT in the class where the clause is written
        eng.prove("flag.inside_iff_reference_has_a_component_prefix", z3.BoolVal(flat.fields.get("__left_inner") is bool(lchild) and flat.fields.get("__right_inner") is bool(rchild)),
                  left=flat.fields.get("__left_inner"), right=flat.fields.get("__right_inner"))


# ------------------------------------------------------------------------------------------------ arrays of connectors
ARRAY_GRAPHS = [
    # label, array connectors (name -> dims), clauses over (name, subscripts)
    ("grid-row-to-different-partners", {"grid": 2}, [(("grid", (1, 1)), ("a.p", ())), (("grid", (1, 2)), ("b.p", ()))]),
    ("grid-rows-connected-pairwise", {"grid": 2}, [(("grid", (1, 1)), ("grid", (1, 2))), (("grid", (2, 1)), ("grid", (2, 2)))]),
    ("grid-cross", {"grid": 2}, [(("grid", (1, 2)), ("grid", (2, 1))), (("grid", (2, 1)), ("c.p", ()))]),
    ("vector-chain", {"v": 1}, [(("v", (1,)), ("v", (2,))), (("v", (2,)), ("v", (3,)))]),
    ("vector-and-grid", {"v": 1, "grid": 2}, [(("v", (1,)), ("grid", (1, 1))), (("v", (2,)), ("grid", (1, 2))), (("v", (1,)), ("v", (3,)))]),
    ("component-array-pins", {"rs.p": 1}, [(("rs.p", (1,)), ("rs.p", (2,))), (("rs.p", (3,)), ("a.p", ()))]),
]


def h_connector_arrays(eng):
    """connect clauses over ELEMENTS of connector arrays (1-D and 2-D): every element is a connector of its own -- two elements are in
    one connection set only if a chain of connect clauses links them; the emitted flow sums and potential equalities have exactly the
    solutions of those sets (unconnected elements of an array are outside: the code states it cannot enumerate them)."""
    label, arrays, clauses = ARRAY_GRAPHS[eng.choice(len(ARRAY_GRAPHS))]
    pattern = eng.choice(2)
    eng.input("graph", label)
    A = setup(eng)
    names = []
    for (l, r) in clauses:
        for nme, idx in (l, r):
            if nme not in names:
                names.append(nme)
    inner = {n: (True if pattern == 0 else ("." in n)) for n in names}
    eng.input("inside", inner)
    node, ctype = build_node(A, names)
    install_contracts(eng, A, ctype)

    def ref(nme, idx):
        if not idx:
            return A.ref(nme)
        return A.ref(nme, indices=VList([VList([A.prim(i) for i in idx])]))
    eqs = []
    for (ln, li), (rn, ri) in clauses:
        c = A.new("ConnectClause", left=ref(ln, li), right=ref(rn, ri))
        c.fields["__left_inner"], c.fields["__right_inner"] = inner[ln], inner[rn]
        eqs.append(c)
    node.fields["equations"] = VList(eqs)
    eng.call(eng.find_function(TREE, "expand_connectors"), [node], {})
    eng.cover("arrays." + label)
    out = node.fields["equations"].items
    sem = SemIdx()
    try:
        emitted = [sem.eq(e) for e in out]
    except Unsupported as u:
        eng.prove("arrays.emitted_equations_are_over_element_references", False, note=str(u))
        return
    # reference connection sets over (name, subscripts, inside flag)
    parent = {}

    def find(x):
        parent.setdefault(x, x)
        while parent[x] != x:
            x = parent[x]
        return x
    for (ln, li), (rn, ri) in clauses:
        a, b = find((ln, li, inner[ln])), find((rn, ri, inner[rn]))
        if a != b:
            parent[b] = a
    sets = {}
    for x in list(parent):
        sets.setdefault(find(x), []).append(x)
    want = []
    for members in sets.values():
        for v in POT:
            f0 = members[0]
            for m in members[1:]:
                want.append(sem.var(f0[0] + "." + v, f0[1]) == sem.var(m[0] + "." + v, m[1]))
        for fl in FLOW:
            want.append(z3.Sum([sem.var(m[0] + "." + fl, m[1]) if m[2] else -sem.var(m[0] + "." + fl, m[1]) for m in members]) == 0)
    # flows of whole arrays / scalars that no clause mentions are not emitted here; those of mentioned scalar connectors are all in sets
    E, R = z3.And(emitted), z3.And(want)
    eng.prove("arrays.emitted_equations_imply_connection_set_equations", z3.Implies(E, R), graph=label)
    eng.prove("arrays.connection_set_equations_imply_emitted_equations", z3.Implies(R, E), graph=label)


class SemIdx(Sem):
    def var(self, name, idx=()):
        key = name + ("[%s]" % ",".join(str(i) for i in idx) if idx else "")
        return Sem.var(self, key)

    def term(self, e):
        if e.cls.name == "ComponentRef":
            idx = []
            for row in e.fields["indices"].items:
                for i in (row.items if isinstance(row, VList) else row):
                    if i is None:
                        continue
                    idx.append(i.fields["value"])
            return self.var(e.fields["name"], tuple(idx))
        return Sem.term(self, e)


HARNESSES = [("flatten_symbols: inside/outside mark of connect clause ends", h_inside_flag),
             ("expand_connectors: all clause sequences up to 3 over 4 connectors", h_whole_sequences),
             ("expand_connectors: curated graphs", h_whole_curated), ("expand_connectors: a connector connected from inside and from outside", h_whole_hierarchical),
             ("flow branch: merge step from every well-formed table", h_merge_step),
             ("flow-sum emission from every well-formed table", h_emission),
             ("connector variable kinds", h_variable_kinds), ("expand_connectors: elements of connector arrays", h_connector_arrays),
             ("expand_connectors: two connector classes with one simple name", h_two_connector_classes)]
EXPECTED_COVER = {"whole.n1", "whole.n2", "whole.n3", "whole.unconnected_connector", "merge.step", "merge.two_existing_sets", "merge.redundant", "merge.new_set",
                  "merge.self_connection", "merge.same_name_other_flag", "emit.step", "emit.all_outside", "kinds.potential", "kinds.flow", "kinds.skipped", "kinds.rejected", "flag.marked", "flag.fresh"} | {"curated." + c[0] for c in CURATED} | {"arrays." + g[0] for g in ARRAY_GRAPHS} | {"hier." + g[0] for g in HIERARCHICAL} | {"twoclasses." + g[0] for g in TWO_CLASSES}
BOUNDED = True
LEVEL = "proof"
TRUSTED = ["flatten_class(connector class) returns the connector's flat symbols with their prefixes (assumed contract; C07's subject)",
           "numpy.all over a list of Python booleans is their conjunction",
           "connector symbols carry __connector_type and connect clauses carry __left_inner/__right_inner as flatten_symbols sets them (tree.py 646-679): inside iff the reference had a component prefix where the clause was written"]
ASSUMPTIONS = [
    "arrays of connectors: six graphs over elements of 1-D / 2-D connector arrays and pins of component arrays are decided for the CONNECTED elements; unconnected elements of a connector array are outside the decided scope (the code itself notes it cannot enumerate them)",
    "the inductive merge step and the emission step are proved from every well-formed table over <= 4 (resp. <= 5) keys by executing the real fragment on each: unbounded in the number of clauses (induction), bounded in the number of distinct flow variables per table",
    "whole-function equivalences are per enumerated graph (all 1..3-clause sequences over four connectors and eight curated graphs), each for all real values of the variables (linear real arithmetic validity)",
    "a flow variable counts as connected once its connector appears in any connect clause, whichever side or flag (the statement's 'appears in no connection')",
]
EXPLANATION = ("Real expand_connectors executed symbolically: whole function per enumerated connection graph with both implications between emitted and reference equations proved valid over the reals by z3; "
               "representation invariant + abstract-partition contract of the connection table proved for the real merge fragment from every well-formed small table (induction over clauses); emission fragment proved per table and sign pattern.")
MANIFEST = {
    "category": "proof",
    "text": "The real expand_connectors is executed symbolically on the real pymoca.ast classes. (1) Whole function: for all 258 sequences (two orientations, three inside/outside patterns) of 1..3 connect clauses over four connectors (inside/outside patterns) and eight curated graphs (chain, star, cycle, merge of separate sets, redundant connects, repeated and reversed pairs), z3 proves that the emitted equations and the reference connection-set equations (potentials equal per set, sum(inside)-sum(outside)=0 per set, unconnected flows zero) imply each other for all real values; ordinary equations kept; connector symbols stripped. (2) Induction over clauses: the real flow branch, run from every well-formed connection table over <=4 keys and every pair of ends, keeps the table well-formed (each key maps to the one dict object containing it) and yields exactly the old partition with the two ends' sets joined. (3) The real emission loop, from every well-formed table over <=5 keys and four sign patterns, emits equations equivalent to the sets' flow balances. A bounded replay flattens generated Modelica models with random connection graphs and compares solution spaces (rank test) with the reference. One of the two connector classes has several flow variables.",
    "note": "Proved per enumerated graph/table shape (all real values), not for arbitrarily large tables; arrays of connectors are outside the decided scope.",
    "technique": "contract-based deductive verification: symbolic execution of the real function and fragments, representation invariant and abstract-view postconditions, linear real arithmetic validity by z3 (cvc5 fallback); bounded replay",
}
