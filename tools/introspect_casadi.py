"""Interface facts of the installed CasADi (run under /venv/bin/python by the check): which names exist on MX,
which functions the casadi module itself offers, the operation codes (OP_*), and which of them are produced by
one-operand elementary operations (found by applying each operation to a symbol and reading .op() back)."""
import json, sys
import casadi as ca
x = ca.MX.sym("x")
codes = {n: int(getattr(ca, n)) for n in dir(ca) if n.startswith("OP_") and isinstance(getattr(ca, n), int)}
by_code = {v: k for k, v in codes.items()}
unary = {}
probes = {"sin": ca.sin, "cos": ca.cos, "tan": ca.tan, "asin": ca.asin, "acos": ca.acos, "atan": ca.atan, "sinh": ca.sinh, "cosh": ca.cosh,
          "tanh": ca.tanh, "asinh": ca.asinh, "acosh": ca.acosh, "atanh": ca.atanh, "exp": ca.exp, "log": ca.log, "sqrt": ca.sqrt,
          "sq": lambda v: v ** 2, "twice": lambda v: 2 * v, "fabs": ca.fabs, "sign": ca.sign, "floor": ca.floor, "ceil": ca.ceil,
          "erf": ca.erf, "erfinv": ca.erfinv, "inv": lambda v: 1 / v, "neg": lambda v: -v, "not": ca.logic_not,
          "log1p": getattr(ca, "log1p", None), "expm1": getattr(ca, "expm1", None)}
for name, fn in probes.items():
    if fn is None:
        continue
    try:
        e = fn(x)
        if e.n_dep() == 1 and e.op() in by_code:
            unary[by_code[e.op()]] = name
    except Exception:
        pass
print(json.dumps({"casadi_version": ca.__version__, "mx_attributes": sorted(n for n in dir(x)),
                  "module_functions": sorted(n for n in dir(ca) if not n.startswith("_") and callable(getattr(ca, n)) and not isinstance(getattr(ca, n), type)),
                  "op_codes": codes, "unary_ops": unary}))
