"""C05 -- flattening never changes what later flattening produces.

The property is a history property; contracts decide it through a FRAME argument:

  (L)  history lemma (z3): if every request is a function of (parsed-tree state, request) and leaves the
       parsed-tree state as it found it, then by induction over the history every step equals the same
       request on the initial state, i.e. on a fresh parse.
  (F)  frame of flatten: no object of the parsed tree is written, except the unqualified-import memo of
       Class._find_class, whose entry must resolve to the class the un-memoised search returns.

(F) is carried by contracts on the real functions between the entry point and the writes:
  * tree.flatten (real body, callees under contract): the class handed to flatten_class is the result of
    copy_including_children (separated from the tree: C06), never the tree's own class object; root and the
    looked-up class object are unchanged on return.
  * Class.find_class (real body): with the default flags the result is copy_including_children(found).
  * ConstantReferenceApplier.enterComponentRef (real body): the Symbol object found by find_constant_symbol
    is never stored; what is stored is its deep copy.
  * TreeWalker.skip_child (real body, symbolic child name): walkers never descend into Class.parent.
  * Class._find_class (real body, recursive calls under contract, 1..3 wildcard packages, every found/not-found
    pattern): the memo written for an unqualified import is the reference whose search returned the result.
  * ownership (def-use) contract over tree.py, the three back ends and tools/compiler.py on the real AST:
    expressions that may denote parsed-tree objects (x.parent, x.root, find_class(copy=<not True>), _find_class,
    find_constant_symbol results) only flow into parent= arguments, read-only lookups, None tests, or a
    deep copy; the look-up methods of ast.Class assign nothing but fresh locals (and the memo).
"""
import ast

import z3

from pyvc import ops
from pyvc.values import Ext, PyRaise, Unsupported, VBound, VDict, VList, VObj, stub

from . import copy_model
from .ast_common import AstFactory, base_modules

AST = "pymoca.ast"
TREE = "pymoca.tree"


def setup(eng):
    base_modules(eng)
    eng.ext_modules["copy"] = copy_model.module()
    return AstFactory(eng)


def fields_snapshot(objs):
    """identity snapshot of the attribute maps and the containers they hold"""
    snap = []
    for o in objs:
        for k, v in sorted(o.fields.items()):
            if isinstance(v, VDict):
                snap.append((id(o), k, id(v), tuple(map(str, v.keys)), tuple(id(x) for x in v.vals)))
            elif isinstance(v, VList):
                snap.append((id(o), k, id(v), tuple(id(x) for x in v.items)))
            else:
                snap.append((id(o), k, id(v) if isinstance(v, (VObj, Ext)) else repr(v)))
    return snap


# ------------------------------------------------------------------------------------------------ flatten entry
def h_flatten_entry(eng):
    A = setup(eng)
    f = eng.find_function(TREE, "flatten")
    root = A.new("Tree", name="root")
    pkg = A.new("Class", name="P", type="package")
    m = A.new("Class", name="M", type="model")
    m.fields["symbols"].keys.append("x")
    m.fields["symbols"].vals.append(A.new("Symbol", name="x"))
    add = eng.find_function(AST, "Class.add_class")
    nested = eng.choice(2)
    eng.input("requested_class", ["M", "P.M"][nested])
    if nested:
        eng.call(VBound(add, root), [pkg], {})
        eng.call(VBound(add, pkg), [m], {})
    else:
        eng.call(VBound(add, root), [m], {})
    tree_objs = [root, pkg, m] + list(m.fields["symbols"].vals)
    before = fields_snapshot(tree_objs)
    seen = {}

    def flatten_class(eng, args, kwargs):
        seen["arg"] = args[0]
        flat = A.new("Class", name="flat", type="model")
        seen["flat"] = flat
        return flat

    def passes(name):
        def c(eng, args, kwargs):
            seen.setdefault("post", []).append((name, args[0]))
            return None
        return c
    eng.call_contracts["flatten_class"] = flatten_class
    for n in ("expand_connectors", "add_state_value_equations", "add_variable_value_statements", "annotate_states"):
        eng.call_contracts[n] = passes(n)
    ref = eng.call(eng.getattr(A.cls("ComponentRef"), "from_string", None, None), ["P.M" if nested else "M"], {})
    out = eng.call(f, [root, ref], {})
    eng.cover("flatten.entry")
    arg = seen.get("arg")
    # (P) the class that is flattened is not an object of the parsed tree ...
    eng.prove("frame.flatten_works_on_a_copy_of_the_requested_class", z3.BoolVal(arg is not None and arg is not m and arg not in tree_objs))
    # ... and shares no symbol object / container with it (separation delivered by copy_including_children)
    shared = arg is not None and (arg.fields["symbols"] is m.fields["symbols"] or any(s in tree_objs for s in arg.fields["symbols"].vals))
    eng.prove("frame.copy_shares_no_symbol_with_the_tree", z3.BoolVal(not shared))
    eng.prove("frame.copy_keeps_the_lexical_parent", z3.BoolVal(arg is not None and arg.fields.get("parent") is (pkg if nested else root)))
    # (P) the passes after flatten_class only receive the flat class (or its functions)
    post_ok = all(a is seen["flat"] or a not in tree_objs for _n, a in seen.get("post", []))
    eng.prove("frame.post_passes_only_touch_the_flat_class", z3.BoolVal(post_ok and len(seen.get("post", [])) >= 3))
    # (P) nothing of the parsed tree was written by flatten itself
    eng.prove("frame.parsed_tree_unchanged_by_flatten_body", z3.BoolVal(fields_snapshot(tree_objs) == before))
    eng.prove("result.new_tree_holds_the_flat_class_under_its_full_name",
              z3.BoolVal(isinstance(out, VObj) and out is not root and list(out.fields["classes"].keys) == ["P.M" if nested else "M"] and
                         out.fields["classes"].vals[0] is seen["flat"]))


def h_find_class_copies(eng):
    A = setup(eng)
    f = eng.find_function(AST, "Class.find_class")
    root = A.new("Tree", name="root")
    m = A.new("Class", name="M", type="model")
    eng.call(VBound(eng.find_function(AST, "Class.add_class"), root), [m], {})
    marker = {}

    def cic(eng, args, kwargs):
        marker["copied"] = args[0]
        marker["copy"] = A.new("Class", name="M", type="model")
        return marker["copy"]
    eng.call_contracts["Class.copy_including_children"] = cic
    mode = eng.choice(3)
    eng.input("copy_argument", ["default", "True", "False"][mode])
    kw = {} if mode == 0 else {"copy": mode == 1}
    r = eng.call(VBound(f, root), [A.ref("M")], kw)
    eng.cover("find_class.%s" % ["default", "true", "false"][mode])
    if mode == 2:
        eng.prove("find_class.copy_false_returns_the_tree_object", z3.BoolVal(r is m and "copy" not in marker))
    else:
        # (P) by default the caller gets copy_including_children(found class), not the tree's object
        eng.prove("find_class.default_returns_a_copy", z3.BoolVal(marker.get("copied") is m and r is marker.get("copy") and r is not m))


# ------------------------------------------------------------------------------------------------ pulled constants
def h_constant_pull(eng):
    A = setup(eng)
    cls = eng.module_global(eng.load_module(TREE), "ConstantReferenceApplier")
    inst = A.new("InstanceClass", name="M", type="model")
    owned = A.new("Symbol", name="k")                 # a symbol object of the parsed tree
    owned.fields["value"] = A.prim(3)
    found = {}

    def fcs(eng, args, kwargs):
        found["n"] = found.get("n", 0) + 1
        outcome = eng.choice(2)
        if outcome == 1:
            raise PyRaise(eng.make_exc("ConstantSymbolNotFoundError", ""))
        return owned
    eng.call_contracts["Class.find_constant_symbol"] = fcs
    listener = eng.call(cls, [inst], {})
    eng.call(eng.getattr(listener, "enterInstanceClass", None, None), [inst], {})
    nested = eng.choice(2)
    ref = A.ref("K", child=VList([A.ref("k")])) if nested else A.ref("k")
    eng.input("reference", "K.k" if nested else "k")
    before = fields_snapshot([owned])
    eng.call(eng.getattr(listener, "enterComponentRef", None, None), [ref], {})
    eng.call(eng.getattr(listener, "exitComponentRef", None, None), [ref], {})
    eng.call(eng.getattr(listener, "exitInstanceClass", None, None), [inst], {})
    eng.cover("constants.%s" % ("nested" if nested else "plain"))
    syms = inst.fields["symbols"]
    # (P) the tree's Symbol object never becomes a symbol of the instance tree (where it would be renamed and modified)
    eng.prove("frame.pulled_constant_is_not_the_tree_object", z3.BoolVal(all(v is not owned for v in syms.vals)))
    eng.prove("frame.tree_constant_unchanged_by_the_pull", z3.BoolVal(fields_snapshot([owned]) == before))
    if nested and syms.vals:
        got = syms.vals[0]
        eng.prove("result.pulled_constant_is_a_deep_copy", z3.BoolVal(isinstance(got, VObj) and got.cls is owned.cls and got.fields["value"] is not owned.fields["value"] and
                                                                     got.fields["value"].fields["value"] == 3 and list(syms.keys) == ["K.k"]))
    if not nested:
        eng.prove("result.plain_references_pull_nothing", z3.BoolVal(not syms.vals and found.get("n", 0) == 0))


# ------------------------------------------------------------------------------------------------ walkers skip parent
def h_skip_parent(eng):
    A = setup(eng)
    w = eng.call(eng.module_global(eng.load_module(TREE), "TreeWalker"), [], {})
    kind = eng.choice(3)
    node = [A.new("Class", name="C"), A.new("InstanceClass", name="I"), A.new("Tree", name="T")][kind]
    name = eng.fresh_str("child_name")
    eng.input("child_name", name)
    eng.input("node_kind", ["Class", "InstanceClass", "Tree"][kind])
    r = eng.call(eng.getattr(w, "skip_child", None, None), [node, name], {})
    eng.cover("walker.skip_child")
    # (P) for every attribute name: `parent` of any class node is skipped
    eng.prove("frame.walkers_never_descend_into_parent", z3.Implies(name == z3.StringVal("parent"), ops.truth(eng, r) if not isinstance(r, bool) else z3.BoolVal(r)))


# ------------------------------------------------------------------------------------------------ import memo
class Found(Ext):
    def __init__(self, label):
        self.label = label


def h_import_memo(eng):
    A = setup(eng)
    f = eng.find_function(AST, "Class._find_class")
    n = 1 + eng.choice(3)
    pkgs = ["A", "B", "C"][:n]
    me = A.new("Class", name="P", type="package")
    star = A.new("ImportClause", components=VList([A.ref(p) for p in pkgs]), unqualified=True)
    ops.setitem(eng, me.fields["imports"], "*", star)
    outcomes, calls = [], []
    state = {"outer": True}

    def contract(eng, args, kwargs):
        # recursive calls: an arbitrary deterministic search -- found (a distinct class per reference) or not found
        self_, ref = args[0], args[1]
        if state["outer"]:
            state["outer"] = False
            return eng.call_function(f, list(args), kwargs, bypass_contract=True)
        text = eng.call(eng.getattr(ref, "__str__", None, None), [], {})
        calls.append((text, dict(kwargs), list(args[2:])))
        if text not in [o[0] for o in outcomes]:
            outcomes.append((text, eng.choice(2)))
        hit = dict(outcomes)[text]
        if hit:
            return Found(text)
        raise PyRaise(eng.make_exc("ClassNotFoundError", ""))
    eng.call_contracts["Class._find_class"] = contract
    eng.input("wildcard_packages", pkgs)
    raised = None
    try:
        r = eng.call(VBound(f, me), [A.ref("X")], {})
    except PyRaise as e:
        raised, r = e, None
    eng.input("found_in", [t for t, h in outcomes if h])
    hits = [t for t, h in outcomes if h]
    eng.cover("memo.%d_packages" % n)
    memo = me.fields["imports"]
    if not hits:
        eng.prove("memo.nothing_cached_when_not_found", z3.BoolVal(raised is not None and list(memo.keys) == ["*"]))
        return
    eng.cover("memo.found")
    # (P) the memo entry resolves to the class this very search returned
    cached = None
    if "X" in memo.keys:
        cref = memo.vals[memo.keys.index("X")]
        cached = eng.call(eng.getattr(cref, "__str__", None, None), [], {})
    eng.prove("memo.cached_reference_is_the_one_that_matched", z3.BoolVal(isinstance(r, Found) and cached == r.label), cached=cached, returned=getattr(r, "label", None))
    # (P) a later search takes the memo path and asks for exactly that reference
    state["outer"] = True
    del calls[:]
    r2 = eng.call(VBound(f, me), [A.ref("X")], {})
    eng.prove("memo.second_lookup_returns_the_same_class", z3.BoolVal(isinstance(r2, Found) and isinstance(r, Found) and r2.label == r.label), first=getattr(r, "label", None), second=getattr(r2, "label", None))
    eng.prove("memo.only_the_import_table_entry_was_added", z3.BoolVal(list(memo.keys) == ["*", "X"]))


# ------------------------------------------------------------------------------------------------ ownership def-use
READ_ONLY_METHODS = {"find_class", "find_constant_symbol", "full_reference"}
LOOKUPS = {"_find_class", "_find_constant_symbol", "find_constant_symbol"}
MUTATORS = {"append", "extend", "insert", "pop", "remove", "clear", "update", "setdefault", "add", "discard", "sort", "reverse", "popitem",
            "add_class", "remove_class", "add_symbol", "remove_symbol", "add_equation", "remove_equation", "extend_"}


def parents(tree):
    p = {}
    for n in ast.walk(tree):
        for c in ast.iter_child_nodes(n):
            p[c] = n
    return p


def is_unowned_source(n):
    """expressions that may denote an object of the parsed tree"""
    if isinstance(n, ast.Attribute) and isinstance(n.ctx, ast.Load) and n.attr in ("parent", "root"):
        return "." + n.attr
    if isinstance(n, ast.Call) and isinstance(n.func, ast.Attribute):
        if n.func.attr in LOOKUPS:
            return n.func.attr + "()"
        if n.func.attr == "find_class":
            for kw in n.keywords:
                if kw.arg == "copy" and not (isinstance(kw.value, ast.Constant) and kw.value.value is True):
                    return "find_class(copy=%s)" % ast.unparse(kw.value)
            if len(n.args) >= 2 and not (isinstance(n.args[1], ast.Constant) and n.args[1].value is True):
                return "find_class(<positional copy>)"
    return None


def ownership_violations(tree, skip_functions=()):
    par = parents(tree)
    funcs = {n.name: n for n in ast.walk(tree) if isinstance(n, ast.FunctionDef)}
    bad, flows = [], 0
    for fn in [n for n in ast.walk(tree) if isinstance(n, ast.FunctionDef)]:
        if fn.name in skip_functions:
            continue
        tainted = {a.arg for a in fn.args.args + fn.args.kwonlyargs if a.arg == "parent"}
        changed = True
        while changed:
            changed = False
            for n in ast.walk(fn):
                if isinstance(n, ast.Assign) and len(n.targets) == 1 and isinstance(n.targets[0], ast.Name):
                    v = n.value
                    if (is_unowned_source(v) or (isinstance(v, ast.Name) and v.id in tainted)) and n.targets[0].id not in tainted:
                        tainted.add(n.targets[0].id)
                        changed = True
        for n in ast.walk(fn):
            src = is_unowned_source(n) or ("name " + n.id if isinstance(n, ast.Name) and isinstance(n.ctx, ast.Load) and n.id in tainted else None)
            if not src:
                continue
            flows += 1
            p = par.get(n)
            ok = False
            if isinstance(p, ast.keyword) and p.arg == "parent":
                ok = True
            elif isinstance(p, ast.Call) and n in p.args and isinstance(p.func, ast.Name) and p.func.id in funcs:
                params = [a.arg for a in funcs[p.func.id].args.args]
                i = p.args.index(n)
                ok = i < len(params) and params[i] == "parent"
            elif isinstance(p, ast.Call) and isinstance(p.func, ast.Attribute) and p.func.attr == "deepcopy" and n in p.args:
                ok = True
            elif isinstance(p, ast.Attribute) and p.value is n and isinstance(p.ctx, ast.Load):
                gp = par.get(p)
                ok = (p.attr in READ_ONLY_METHODS and isinstance(gp, ast.Call) and gp.func is p) or p.attr in ("parent", "root", "name")
            elif isinstance(p, ast.Compare) and all(isinstance(o, (ast.Is, ast.IsNot)) for o in p.ops):
                ok = True
            elif isinstance(p, ast.Assign) and p.value is n and len(p.targets) == 1 and isinstance(p.targets[0], ast.Name):
                ok = True
            elif isinstance(p, ast.Assign) and p.value is n and len(p.targets) == 1 and isinstance(p.targets[0], ast.Attribute) and p.targets[0].attr == "parent":
                ok = True
            if not ok:
                bad.append("%s:%d %s used as %s" % (fn.name, n.lineno, src, ast.unparse(p)[:70] if p is not None else "?"))
    return bad, flows


def h_ownership(eng):
    mod = eng.load_module(TREE)
    tree = eng.source.module_ast(mod.relpath)
    eng.source.record(mod.relpath, tree, TREE + "(ownership def-use)")
    eng.cover("ownership.tree")
    # flatten's own use of `root` is decided by executing its real body (h_flatten_entry)
    bad, flows = ownership_violations(tree)
    eng.prove("ownership.tree_objects_only_flow_into_parent_links_lookups_or_copies", z3.BoolVal(not bad and flows >= 5), violations=bad[:6], flows=flows)
    # flatten: root is only the receiver of find_class before being rebound
    fl = next(n for n in tree.body if isinstance(n, ast.FunctionDef) and n.name == "flatten")
    par = parents(fl)
    uses = []
    rebound = None
    for n in ast.walk(fl):
        if isinstance(n, ast.Name) and n.id == "root":
            if isinstance(n.ctx, ast.Store):
                rebound = rebound or n.lineno
    for n in ast.walk(fl):
        if isinstance(n, ast.Name) and n.id == "root" and isinstance(n.ctx, ast.Load) and (rebound is None or n.lineno < rebound):
            p = par.get(n)
            gp = par.get(p)
            uses.append(isinstance(p, ast.Attribute) and p.attr == "find_class" and isinstance(gp, ast.Call) and gp.func is p)
    eng.prove("ownership.flatten_uses_root_only_to_look_up_the_class", z3.BoolVal(bool(uses) and all(uses)), uses=len(uses))
    # back ends and CLI hand the parsed tree to flatten and nowhere else
    for modname, fn_name, param in (("pymoca.backends.casadi.generator", "generate", "library"), ("pymoca.backends.sympy.generator", "generate", "ast_tree"),
                                    ("pymoca.backends.xml.generator", "generate", "ast_tree")):
        try:
            m2 = eng.load_module(modname)
        except Exception as e:  # noqa
            raise Unsupported("cannot read %s: %s" % (modname, e))
        t2 = eng.source.module_ast(m2.relpath)
        g = next((n for n in t2.body if isinstance(n, ast.FunctionDef) and n.name == fn_name), None)
        if g is None:
            raise Unsupported("no %s.%s" % (modname, fn_name))
        eng.source.record(m2.relpath, g, modname + ":" + fn_name + "(def-use)")
        first = g.args.args[0].arg
        p2 = parents(g)
        loads = [n for n in ast.walk(g) if isinstance(n, ast.Name) and n.id == first and isinstance(n.ctx, ast.Load)]
        ok = [isinstance(p2.get(n), ast.Call) and p2[n].args and p2[n].args[0] is n and
              ((isinstance(p2[n].func, ast.Name) and p2[n].func.id in ("flatten", "flatten_class")) or
               (isinstance(p2[n].func, ast.Attribute) and p2[n].func.attr == "deepcopy")) for n in loads]
        eng.prove("ownership.%s_hands_the_tree_only_to_flatten" % modname.split(".")[-2], z3.BoolVal(bool(loads) and all(ok)), uses=[n.lineno for n in loads])
    bad2 = []
    for modname in ("pymoca.backends.casadi.generator", "pymoca.backends.sympy.generator", "pymoca.backends.xml.generator"):
        t2 = eng.source.module_ast(eng.load_module(modname).relpath)
        for n in ast.walk(t2):
            s = is_unowned_source(n)
            if s and s not in (".root",):          # Generator.root is the FLAT tree returned by flatten
                bad2.append("%s:%d %s" % (modname.split(".")[-2], n.lineno, s))
    eng.prove("ownership.back_ends_do_no_tree_lookups_of_their_own", z3.BoolVal(not bad2), uses=bad2[:5])


def h_lookup_methods_read_only(eng):
    mod = eng.load_module(AST)
    tree = eng.source.module_ast(mod.relpath)
    cls = next(n for n in tree.body if isinstance(n, ast.ClassDef) and n.name == "Class")
    eng.cover("ownership.ast_lookups")
    for name in ("_find_class", "find_class", "_find_constant_symbol", "find_constant_symbol", "full_reference", "copy_including_children"):
        fn = next((n for n in cls.body if isinstance(n, ast.FunctionDef) and n.name == name), None)
        if fn is None:
            raise Unsupported("no Class.%s" % name)
        eng.source.record(mod.relpath, fn, AST + ":Class." + name + "(write set)")
        par = parents(fn)

        def is_fresh_value(v):
            return (isinstance(v, ast.Call) and isinstance(v.func, ast.Name) and v.func.id[:1].isupper()) or \
                (isinstance(v, (ast.List, ast.Dict, ast.Set)) and not getattr(v, "elts", getattr(v, "keys", [])))

        def fresh_at(name, node):
            """the nearest assignment to `name` that precedes `node` in one of its enclosing statement lists creates a new object"""
            cur = node
            while cur in par:
                up = par[cur]
                for field in ("body", "orelse", "finalbody"):
                    block = getattr(up, field, None)
                    if isinstance(block, list) and cur in block:
                        for st in reversed(block[:block.index(cur)]):
                            if isinstance(st, ast.Assign) and len(st.targets) == 1 and isinstance(st.targets[0], ast.Name) and st.targets[0].id == name:
                                return is_fresh_value(st.value)
                            if any(isinstance(x, ast.Name) and x.id == name and isinstance(x.ctx, ast.Store) for x in ast.walk(st)):
                                return False
                cur = up
            return False
        writes = []
        for n in ast.walk(fn):
            base = None
            if isinstance(n, (ast.Attribute, ast.Subscript)) and isinstance(n.ctx, (ast.Store, ast.Del)):
                base = n.value
            elif isinstance(n, ast.Call) and isinstance(n.func, ast.Attribute) and n.func.attr in MUTATORS:
                base = n.func.value
            if base is None:
                continue
            root = base
            while isinstance(root, (ast.Attribute, ast.Subscript)):
                root = root.value
            if isinstance(root, ast.Name) and fresh_at(root.id, n):
                continue
            writes.append(ast.unparse(n if not isinstance(n, ast.Call) else n.func))
        allowed = ["self.imports[component_ref.name]"] if name == "_find_class" else []
        # (P) the look-up methods write nothing but objects they created (and the import memo)
        eng.prove("ownership.Class_%s_writes_only_fresh_objects" % name.strip("_"), z3.BoolVal(sorted(writes) == allowed), writes=writes)


def h_cli_loop(eng):
    relpath = "tools/compiler.py"
    tree = eng.source.module_ast(relpath)
    main = next(n for n in tree.body if isinstance(n, ast.FunctionDef) and n.name == "main")
    eng.source.record(relpath, main, "tools.compiler:main(model loop def-use)")
    eng.cover("cli.loop")
    loops = [n for n in ast.walk(main) if isinstance(n, ast.For) and isinstance(n.iter, ast.Attribute) and n.iter.attr == "model"]
    ok_state, ok_tree = True, True
    carried = set()
    for lp in loops:
        for n in ast.walk(lp):
            if isinstance(n, ast.Name) and isinstance(n.ctx, ast.Store) and n is not lp.target:
                carried.add(n.id)
            if isinstance(n, ast.Name) and n.id == "library_ast" and isinstance(n.ctx, ast.Load):
                p = parents(lp).get(n)
                if not (isinstance(p, ast.Call) and isinstance(p.func, ast.Name) and p.func.id in ("translate", "flatten_class") and p.args[0] is n):
                    ok_tree = False
    # names assigned in a model's iteration and read by a later one: only the error counter (model_dir / path / _ are re-initialised per model)
    ok_state = carried <= {"errors", "_", "model_dir", "path"}
    eng.prove("cli.models_share_only_the_error_counter_and_the_tree", z3.BoolVal(len(loops) >= 2 and ok_state and ok_tree), carried=sorted(carried))


# ------------------------------------------------------------------------------------------------ history lemma
def h_history_lemma(eng):
    eng.cover("lemma.history")
    S = z3.DeclareSort("TreeState")
    Q = z3.DeclareSort("Request")
    R = z3.DeclareSort("Result")
    res = z3.Function("result", S, Q, R)
    post = z3.Function("state_after", S, Q, S)
    s0, s, = z3.Const("s0", S), z3.Const("s_k", S)
    q = z3.Const("q_k", Q)
    x, y = z3.Const("x", S), z3.Const("y", Q)
    frame = z3.ForAll([x, y], post(x, y) == x)
    # inductive step: if the state before step k is the fresh-parse state, the step's result is the fresh-parse
    # result and the state after it is again the fresh-parse state
    eng.prove("lemma.frame_and_determinism_give_history_independence", z3.Implies(z3.And(frame, s == s0), z3.And(res(s, q) == res(s0, q), post(s, q) == s0)))
    # vacuity guard: without the frame the step is NOT provable (checked as a satisfiable negation)
    sol = z3.Solver()
    sol.add(s == s0, z3.Not(post(s, q) == s0))
    if sol.check() != z3.sat:
        raise Unsupported("history lemma is vacuous")
    eng.cover("lemma.needs_frame")


MUTATORS = {"append", "extend", "insert", "pop", "remove", "clear", "add", "discard", "update", "setdefault", "popitem", "appendleft", "popleft",
            "sort", "reverse", "move_to_end", "difference_update", "intersection_update", "symmetric_difference_update", "__setitem__", "__delitem__"}


def module_state_writes(tree):
    """(module-level names bound to a mutable container, writes to them from inside functions)"""
    holders = {}
    for st in tree.body:
        tgt, val = None, None
        if isinstance(st, ast.Assign) and len(st.targets) == 1 and isinstance(st.targets[0], ast.Name):
            tgt, val = st.targets[0].id, st.value
        elif isinstance(st, ast.AnnAssign) and isinstance(st.target, ast.Name) and st.value is not None:
            tgt, val = st.target.id, st.value
        if tgt is None:
            continue
        mutable = isinstance(val, (ast.List, ast.Dict, ast.Set, ast.ListComp, ast.DictComp, ast.SetComp)) or \
            (isinstance(val, ast.Call) and isinstance(val.func, (ast.Name, ast.Attribute)) and
             (val.func.id if isinstance(val.func, ast.Name) else val.func.attr) in ("list", "dict", "set", "OrderedDict", "defaultdict", "deque", "Counter", "WeakValueDictionary"))
        if mutable:
            holders[tgt] = st.lineno
    writes = []
    for fn in ast.walk(tree):
        if not isinstance(fn, (ast.FunctionDef, ast.AsyncFunctionDef)):
            continue
        local = {a.arg for a in fn.args.args + fn.args.kwonlyargs} | {n.id for n in ast.walk(fn) if isinstance(n, ast.Name) and isinstance(n.ctx, ast.Store)}
        declared_global = {n_ for st in ast.walk(fn) if isinstance(st, ast.Global) for n_ in st.names}
        for n in ast.walk(fn):
            if isinstance(n, ast.Global):
                writes += [(fn.name, n.lineno, "global " + x) for x in n.names]
            name = None
            if isinstance(n, ast.Call) and isinstance(n.func, ast.Attribute) and n.func.attr in MUTATORS and isinstance(n.func.value, ast.Name):
                name, what = n.func.value.id, "." + n.func.attr + "()"
            elif isinstance(n, (ast.Subscript, ast.Attribute)) and isinstance(n.ctx, (ast.Store, ast.Del)) and isinstance(n.value, ast.Name):
                name, what = n.value.id, " item/attribute store"
            elif isinstance(n, ast.AugAssign) and isinstance(n.target, ast.Name):
                name, what = n.target.id, " augmented assignment"
            if name is not None and name in holders and (name not in local or name in declared_global):
                writes.append((fn.name, n.lineno, name + what))
    return holders, writes


def h_no_process_wide_state(eng):
    """Flattening, look-up and copying work on the objects they are handed: no function of tree.py or ast.py writes to a container
    that lives at module level (it would be shared by every tree of the process -- a tree and its copies, an earlier and a later
    flatten -- and survive exceptions)."""
    eng.cover("state.modules")
    for modname in (TREE, "pymoca.ast"):
        mod = eng.load_module(modname)
        tree = eng.source.module_ast(mod.relpath)
        eng.source.record(mod.relpath, tree, modname + "(module-level state)")
        holders, writes = module_state_writes(tree)
        eng.prove("state.no_function_writes_to_a_module_level_container.%s" % modname.split(".")[-1], z3.BoolVal(not writes),
                  module_level_containers=sorted(holders), writes=writes[:6])


HARNESSES = [("tree.flatten: real body, callees under contract", h_flatten_entry),
             ("Class.find_class copies by default", h_find_class_copies),
             ("ConstantReferenceApplier copies pulled constants", h_constant_pull),
             ("TreeWalker.skip_child skips parent (symbolic name)", h_skip_parent),
             ("Class._find_class unqualified-import memo", h_import_memo),
             ("ownership def-use over tree.py / back ends", h_ownership),
             ("write sets of the look-up methods of ast.Class", h_lookup_methods_read_only),
             ("compiler CLI model loop", h_cli_loop),
             ("history lemma", h_history_lemma),
             ("tree.py / ast.py keep no process-wide state", h_no_process_wide_state)]
EXPECTED_COVER = {"flatten.entry", "find_class.default", "find_class.true", "find_class.false", "constants.nested", "constants.plain", "walker.skip_child",
                  "memo.1_packages", "memo.2_packages", "memo.3_packages", "memo.found", "ownership.tree", "ownership.ast_lookups", "cli.loop", "lemma.history", "lemma.needs_frame", "state.modules"}
BOUNDED = True
LEVEL = "other"
TRUSTED = ["copy.deepcopy follows CPython's documented memo protocol (contracts/copy_model.py); separation of copy_including_children's result from the tree is C06's contract",
           "Python's ast module as the reader of the source for the def-use obligations",
           "the parser is deterministic (a fresh parse of the same text gives an equal tree) and flatten is a function of the tree state and the request (no other global state): premises of the history lemma",
           "no reflection (setattr / __dict__ writes with computed names) reaches parsed-tree objects other than through the flows the ownership contract enumerates"]
ASSUMPTIONS = [
    "the frame is carried by a syntactic ownership (def-use) contract over tree.py: a sufficient static condition, not a proof that no write reaches the parsed tree; objects reached only through copies, constructors and deep copies are taken to be owned by the flatten call",
    "the unqualified-import memo in Class._find_class is a write to the parsed tree that the frame exempts; its soundness is proved for 1..3 wildcard packages by unrolling (bounded in that number), under the assumed contract that a recursive search is a deterministic function of the reference",
    "a search through the memoised reference (with imports enabled) is assumed to find the same class as the original search of that reference with imports disabled",
    "flatten_class / expand_connectors / add_state_value_equations / annotate_states are under the assumed contract 'writes only objects reachable from its argument without following parent'; what they actually write is sampled by the bounded replay (native snapshot of the parsed tree before/after)",
]
EXPLANATION = ("History property reduced by a z3-checked induction lemma to a frame condition; the frame is decided by executing the real entry points (flatten, find_class, the constant-reference "
               "listener, skip_child, _find_class's import memo) with callees under contract, plus an ownership def-use contract over the real AST. Level 'other': static sufficient condition plus a bounded "
               "replay of request histories against fresh parses.")
MANIFEST = {
    "category": "other",
    "text": "The history property is reduced by a z3-checked induction lemma to a frame: a flatten/generate request writes no object of the parsed tree (except the unqualified-import memo, proved to cache the reference that matched). The frame is carried by contracts checked on the real source every run: tree.flatten's real body (callees under contract) flattens the result of copy_including_children, never the tree's class object; Class.find_class copies by default; the constant-reference listener stores a deep copy of a found constant, never the tree's Symbol; TreeWalker.skip_child skips `parent` for every attribute name (symbolic string); Class._find_class's memo is the matching reference for every found/not-found pattern of 1..3 wildcard packages; and an ownership def-use contract over tree.py, the back ends and tools/compiler.py allows parsed-tree-denoting expressions (.parent, find_class(copy=False), _find_class, find_constant_symbol) only in parent links, read-only lookups, None tests or deep copies. A bounded replay runs request histories (repeat, ordered pairs, there-and-back, back ends interleaved, CLI alone vs together) on generated libraries and every class of every test model against fresh parses. No function of tree.py / ast.py writes to a container bound at module level (def-use).",
    "note": "Static sufficient condition plus bounded replay, not a proof that flatten_class's interior writes nothing of the tree; three genuine defects were repaired (fix: commits c34baa2, 774e287, b86ae9c).",
    "technique": "contract-based verification: frame / ownership contracts on the real functions (symbolic execution of the real bodies with callees under contract, syntactic def-use obligations over the real AST), z3 history-induction lemma; bounded replay as stand-in for the interior of flatten_class",
}
