"""C04 replay / bounded stand-in: generated class texts are parsed by the real parser (cache bypassed) and the tree is
compared with the generator's own description: symbols (name, type, prefixes, dimensions, visibility, order, comment,
modifications), equation/statement sections, nested classes, extends clauses, imports; duplicates must be rejected."""
import json
import logging
import sys

import numpy as np

FLOW = ["", "", "", "flow", "stream"]
VARI = ["", "", "discrete", "parameter", "constant"]
CAUS = ["", "", "input", "output"]
TYPES = ["Real", "Integer", "Boolean", "Volt", "Lib.Units.Len"]


class Gen:
    def __init__(self, rng):
        self.rng = rng
        self.n = 0

    def fresh(self, base):
        self.n += 1
        return "%s%d" % (base, self.n)

    def clause(self, vis):
        r = self.rng
        prefixes = [p for p in (str(r.choice(FLOW)), str(r.choice(VARI)), str(r.choice(CAUS))) if p]
        typ = str(r.choice(TYPES))
        cdims = [int(r.randint(2, 5))] if r.rand() < 0.2 else []
        decls = []
        for _ in range(int(r.randint(1, 4))):
            name = self.fresh("v")
            ddims = [int(x) for x in r.randint(2, 5, size=r.randint(1, 3))] if r.rand() < 0.3 else []
            mods = []
            if r.rand() < 0.4:
                for a in r.permutation(["start", "min", "max", "nominal"])[:int(r.randint(1, 3))]:
                    mods.append((str(a), int(r.randint(0, 50))))
            value = int(r.randint(0, 99)) if r.rand() < 0.35 else None
            # comments: none, plain, and with escaped quotes inside, at the very beginning and at the very end of the text
            comment = ["about %s" % name, 'pin \\"%s\\" of it' % name, '\\"%s\\"' % name, 'named \\"%s\\"' % name][r.randint(4)] if r.rand() < 0.4 else ""
            decls.append(dict(name=name, dims=ddims, mods=mods, value=value, comment=comment))
        text = " ".join(prefixes + [typ + ("[%s]" % ", ".join(map(str, cdims)) if cdims else "")]) + " " + ", ".join(
            d["name"] + ("[%s]" % ", ".join(map(str, d["dims"])) if d["dims"] else "") +
            ("(%s)" % ", ".join("%s = %d" % m for m in d["mods"]) if d["mods"] else "") +
            (" = %d" % d["value"] if d["value"] is not None else "") +
            (' "%s"' % d["comment"] if d["comment"] else "") for d in decls) + ";"
        want = [dict(name=d["name"], type=typ, prefixes=prefixes, dims=d["dims"] + cdims, visibility=vis, comment=d["comment"],
                     mods=[(a, v) for a, v in d["mods"]] + ([("value", d["value"])] if d["value"] is not None else [])) for d in decls]
        return text, want

    def klass(self, name, depth):
        r = self.rng
        lines, want = [], dict(name=name, symbols=[], eqs=[], ieqs=[], sts=[], ists=[], classes=[], extends=[], imports=[])
        # imports and extends in the leading section
        for _ in range(int(r.randint(0, 3))):
            k = r.randint(4)
            a, b = self.fresh("Pk"), self.fresh("Cl")
            if k == 0:
                lines.append("  import %s.%s;" % (a, b))
                want["imports"].append((b, "%s.%s" % (a, b)))
            elif k == 1:
                s = self.fresh("Sh")
                lines.append("  import %s = %s.%s;" % (s, a, b))
                want["imports"].append((s, "short %s.%s" % (a, b)))
            elif k == 2:
                lines.append("  import %s.*;" % a)
                want["imports"].append(("*", a))
            else:
                names = [self.fresh("Cl") for _ in range(int(r.randint(2, 4)))]
                lines.append("  import %s.{%s};" % (a, ", ".join(names)))
                for nme in names:
                    want["imports"].append((nme, "%s.%s" % (a, nme)))
        vis = "private"
        sections = ["lead"] + [str(r.choice(["public", "protected", "equation", "initial equation", "algorithm", "initial algorithm"])) for _ in range(int(r.randint(0, 6)))]
        for sec in sections:
            if sec in ("public", "protected"):
                vis = sec
                lines.append(sec)
            if sec in ("lead", "public", "protected"):
                for _ in range(int(r.randint(0, 3))):
                    k = r.rand()
                    if k < 0.65:
                        t, w = self.clause(vis)
                        lines.append("  " + t)
                        want["symbols"] += w
                    elif k < 0.8:
                        b = self.fresh("Base")
                        m = int(r.randint(0, 9))
                        lines.append("  extends %s(k = %d);" % (b, m))
                        want["extends"].append((b, vis, [("k", m)]))
                    elif depth > 0:
                        sub = self.fresh("Inner")
                        t, w = self.klass(sub, depth - 1)
                        lines += ["  " + x for x in t]
                        want["classes"].append(w)
            else:
                lines.append(sec)
                for _ in range(int(r.randint(1, 3))):
                    m = self.fresh("m")
                    if "equation" in sec:
                        lines.append("  %s = 1;" % m)
                        want["ieqs" if sec.startswith("initial") else "eqs"].append(m)
                    else:
                        lines.append("  %s := 1;" % m)
                        want["ists" if sec.startswith("initial") else "sts"].append(m)
        return ["model %s" % name] + lines + ["end %s;" % name], want


def observe(c):
    import pymoca.ast as ast

    def val(e):
        return e.value if isinstance(e, ast.Primary) else repr(e)
    syms = []
    for key, s in c.symbols.items():
        dims = [val(d) for row in s.dimensions for d in row if val(d) is not None]
        mods = []
        if s.class_modification is not None:
            for a in s.class_modification.arguments:
                mods.append((str(a.value.component), val(a.value.modifications[0])))
        syms.append(dict(name=s.name, key=key, type=str(s.type), prefixes=list(s.prefixes), dims=dims, visibility=s.visibility.fullname, comment=s.comment, mods=mods, order=s.order))
    imports = []
    for k, v in c.imports.items():
        if isinstance(v, ast.ImportClause):
            if k == "*":
                for comp in v.components:
                    imports.append(("*", str(comp)))
            else:
                imports.append((k, "short " + str(v.components[0])))
        else:
            imports.append((k, str(v)))
    return dict(name=c.name, symbols=syms, eqs=[str(e.left) for e in c.equations], ieqs=[str(e.left) for e in c.initial_equations],
                sts=[str(e.left[0]) if isinstance(e.left, list) else str(e.left) for e in c.statements],
                ists=[str(e.left[0]) if isinstance(e.left, list) else str(e.left) for e in c.initial_statements],
                classes=[observe(k) for k in c.classes.values()],
                extends=[(str(e.component), e.visibility.fullname, [(str(a.value.component), val(a.value.modifications[0])) for a in e.class_modification.arguments]) for e in c.extends],
                imports=imports)


def compare(got, want, path):
    for f in ("name", "eqs", "ieqs", "sts", "ists", "extends"):
        if got[f] != want[f]:
            return "%s: %s is %s, the source declares %s" % (path, f, got[f], want[f])
    if sorted(got["imports"]) != sorted(want["imports"]):
        return "%s: imports are %s, the source declares %s" % (path, sorted(got["imports"]), sorted(want["imports"]))
    if [s["name"] for s in got["symbols"]] != [s["name"] for s in want["symbols"]]:
        return "%s: components %s, the source declares %s (in this order)" % (path, [s["name"] for s in got["symbols"]], [s["name"] for s in want["symbols"]])
    orders = [s["order"] for s in got["symbols"]]
    if orders != sorted(orders) or len(set(orders)) != len(orders):
        return "%s: declaration order numbers %s are not strictly increasing" % (path, orders)
    for g, w in zip(got["symbols"], want["symbols"]):
        if g["key"] != g["name"]:
            return "%s: component stored under %s is named %s" % (path, g["key"], g["name"])
        for f in ("type", "prefixes", "dims", "visibility", "comment", "mods"):
            if g[f] != w[f]:
                return "%s.%s: %s is %s, the source declares %s" % (path, g["name"], f, g[f], w[f])
    if [c["name"] for c in got["classes"]] != [c["name"] for c in want["classes"]]:
        return "%s: nested classes %s, the source declares %s" % (path, [c["name"] for c in got["classes"]], [c["name"] for c in want["classes"]])
    for g, w in zip(got["classes"], want["classes"]):
        bad = compare(g, w, path + "." + g["name"])
        if bad:
            return bad
    return None


def main():
    logging.disable(logging.CRITICAL)
    import pymoca.parser
    payload = json.load(sys.stdin)
    tier, seed = payload.get("tier", "quick"), int(payload.get("seed", 0) or 0)
    rng = np.random.RandomState(seed)
    n_cases = 1500 if tier == "thorough" else 250
    failures, n, seen = [], 0, set()
    for i in range(n_cases):
        g = Gen(rng)
        lines, want = g.klass("M", 2)
        txt = "\n".join(lines) + "\n"
        dup = i % 10 == 9 and want["symbols"]
        if dup:
            # declare an existing name a second time at the end of the class: must be rejected
            victim = want["symbols"][int(rng.randint(len(want["symbols"])))]["name"]
            txt = txt.replace("end M;\n", "public\n  Real %s;\nend M;\n" % victim) if txt.rstrip().endswith("end M;") else txt
        n += 1
        seen.add(txt)
        bad = None
        try:
            tree = pymoca.parser.parse(txt, bypass_cache=True)
            if dup:
                bad = "a component declared twice (%s) was accepted" % victim
            elif tree is None:
                bad = "the generated class text was not parsed"
            else:
                bad = compare(observe(tree.classes["M"]), want, "M")
        except IOError as e:
            if not dup:
                bad = "rejected: %s" % (e,)
        except BaseException as e:  # noqa
            bad = "%s: %s" % (type(e).__name__, str(e)[:200])
        if bad:
            failures.append({"class": "class-text", "input": {"text": txt}, "observed": bad, "expected": "the tree described by the declarations"})
            if payload.get("mode") != "bounded":
                break
    if payload.get("mode") == "bounded":
        print(json.dumps({"performed": True, "cases": n, "distinct_nontrivial": len(seen), "failures": failures[:10],
                          "rule": "random model texts, nesting depth <= 2: imports (qualified, renamed, unqualified, lists of 2-3 names), up to 6 sections (leading/public/protected/equation/initial equation/algorithm/"
                                  "initial algorithm, repeated), component clauses with flow|stream, discrete|parameter|constant, input|output prefixes, 5 types (incl. dotted), type- and declarator-level subscripts, 1-3 declarators "
                                  "with attribute modifications, bindings and comments, extends clauses with a modification, nested classes; every 10th text declares a name twice and must be rejected; parsed with "
                                  "parse(bypass_cache=True) and compared field by field; distinct = distinct texts",
                          "bound": "%d class texts" % n}))
    else:
        f = failures[0] if failures else None
        print(json.dumps({"performed": True, "reproduces": f is not None, "input": f and f["input"], "observed": f and f["observed"],
                          "expected": f and f["expected"], "input_class": "class-text"}))


if __name__ == "__main__":
    main()
