"""Assumed algebra of scalar casadi.MX nodes (DESIGN Appendix A.3) for the simplification contracts
(C14, C15): a term is a symbol, a constant or an operation over terms; denote(term, env) is its
real value.  The node API the real code uses (is_symbolic / is_constant / is_op / op / n_dep / dep /
name, unary minus, if_else) is given this meaning; it is sampled against CasADi by the replays."""
import z3

from pyvc import ops
from pyvc.values import Ext, NoOp, PyRaise, Unsupported, VClass, VDict, VList, VObj, stub

from .api_common import CollectionsStub, ModuleStub, itertools_module

from .casadi_facts import casadi_facts


class _Ops(dict):
    """operation codes: the OP_* constants of the installed casadi module (introspected), plus a code no operation has"""

    def _load(self):
        if not dict.__len__(self):
            dict.update(self, casadi_facts()["op_codes"])
            dict.__setitem__(self, "OP_OTHER", -99)

    def __getitem__(self, k):
        self._load()
        return dict.__getitem__(self, k)

    def __contains__(self, k):
        self._load()
        return dict.__contains__(self, k)

    def get(self, k, d=None):
        self._load()
        return dict.get(self, k, d)

    def items(self):
        self._load()
        return dict.items(self)

    def keys(self):
        self._load()
        return dict.keys(self)

    def __iter__(self):
        self._load()
        return dict.__iter__(self)


OPS = _Ops()
# one-operand operations f with  f(x) = 0  <=>  x = 0  on f's domain (mathematics, stated here once; every other one-operand
# operation is treated as an arbitrary real function, so dropping it from an equation is not justified)
ROOT_PRESERVING = {"OP_NEG", "OP_FABS", "OP_SQRT", "OP_SQ", "OP_TWICE", "OP_ASIN", "OP_ATAN", "OP_SINH", "OP_TANH", "OP_ASINH", "OP_ATANH",
                   "OP_SIGN", "OP_ERF", "OP_ERFINV", "OP_LOG1P", "OP_EXPM1"}


class E(Ext):
    type_names = ("MX",)

    def __init__(self, kind, *deps, name=None, value=None):
        self.kind, self.deps, self.nm, self.value = kind, deps, name, value

    # ---- node API
    def sym_getattr(self, eng, name):
        k = self.kind
        if name == "is_symbolic":
            return stub(lambda eng: k == "sym")
        if name == "is_constant":
            return stub(lambda eng: k == "const")
        if name == "name":
            if k != "sym":
                raise PyRaise(eng.make_exc("RuntimeError", "name() of a non-symbol"))
            return stub(lambda eng: self.nm)
        if name == "n_dep":
            return stub(lambda eng: len(self.deps) if k not in ("sym", "const") else 0)
        if name == "dep":
            def dep(eng, i=0):
                if k in ("sym", "const") or i >= len(self.deps):
                    raise PyRaise(eng.make_exc("RuntimeError", "dep out of range"))
                return self.deps[i]
            return stub(dep)
        if name == "is_op":
            return stub(lambda eng, code: k in OPS and OPS[k] == code)
        if name == "op":
            return stub(lambda eng: OPS.get(k, 0))
        if name == "is_zero":
            return stub(lambda eng: False)
        if name == "shape":
            return (1, 1)
        if name == "size":
            return stub(lambda eng, *a: (1, 1))
        raise Unsupported("MX.%s" % name)

    def sym_unop(self, eng, op):
        if op == "USub":
            return E("OP_NEG", self)
        return self

    def sym_binop(self, eng, op, other, reflected):
        o = other if isinstance(other, E) else E("const", value=ops.to_arith(other) if not isinstance(other, float) else z3.RealVal(repr(other)))
        l, r = (o, self) if reflected else (self, o)
        code = {"Add": "OP_ADD", "Sub": "OP_SUB", "Mult": "OP_MUL", "Div": "OP_DIV"}.get(op)
        if code is None:
            raise Unsupported("MX operator %s" % op)
        return E(code, l, r)

    def sym_eq(self, eng, other):
        return self is other

    def sym_isinstance(self, eng, cls):
        return cls.name == "MX"

    def __repr__(self):
        if self.kind == "sym":
            return self.nm
        if self.kind == "const":
            return "c(%s)" % self.value
        return "%s(%s)" % (self.kind, ", ".join(map(repr, self.deps)))


def sym(name):
    return E("sym", name=name)


def const(value):
    return E("const", value=value)


def if_else(eng, c, a, b, *rest):
    a = a if isinstance(a, E) else const(_val(a))
    b = b if isinstance(b, E) else const(_val(b))
    return E("IF_ELSE", c, a, b)


def _val(v):
    if isinstance(v, float):
        return z3.RealVal(repr(v))
    return z3.ToReal(ops.to_arith(v)) if ops.is_int_sort(ops.to_arith(v)) else ops.to_arith(v)


def denote(t, env):
    """real value of a term; env: symbol name -> z3 Real"""
    if not isinstance(t, E):
        return _val(t)
    k = t.kind
    if k == "sym":
        return env[t.nm]
    if k == "const":
        v = t.value
        return z3.ToReal(v) if ops.is_int_sort(v) else v
    if k == "chain":
        expr, deps, ders = t.deps
        return z3.Sum([partial(expr, dp, env) * (denote(dr, env) if isinstance(dr, E) else _val(dr)) for dp, dr in zip(deps, ders)])
    d = [denote(x, env) for x in t.deps]
    if k == "OP_ADD":
        return d[0] + d[1]
    if k == "OP_SUB":
        return d[0] - d[1]
    if k == "OP_MUL":
        return d[0] * d[1]
    if k == "OP_DIV":
        return d[0] / d[1]
    if k == "OP_NEG":
        return -d[0]
    if k == "OP_FABS":
        return z3.If(d[0] >= 0, d[0], -d[0])
    if k == "OP_IF_ELSE_ZERO":
        return z3.If(d[0] != 0, d[1], z3.RealVal(0))
    if k == "IF_ELSE":
        return z3.If(d[0] != 0, d[1], d[2])
    if k == "opaque":
        return t.value
    if len(d) == 1 and k in casadi_facts()["unary_ops"]:
        u = z3.Function("u_" + k, z3.RealSort(), z3.RealSort())(d[0])
        if k in ROOT_PRESERVING:
            # some real function that vanishes exactly where its operand does
            return z3.If(d[0] == 0, z3.RealVal(0), z3.If(u == 0, z3.RealVal(1), u))
        return u
    raise Unsupported("denotation of %s" % k)


# ------------------------------------------------------------------------------------------------ differentiation (chain rule)
def symbols_of(t):
    """the symbols a term depends on, in first-occurrence order (ca.symvar)"""
    out = []

    def go(x):
        if not isinstance(x, E):
            return
        if x.kind == "sym":
            if not any(x is o for o in out):
                out.append(x)
            return
        if x.kind == "chain":
            for d in list(x.deps[1]) + list(x.deps[2]):
                go(d)
            go(x.deps[0])
            return
        for d in x.deps:
            go(d)
    go(t)
    return out


def partial(t, s, env):
    """d t / d s (s a symbol term) as a z3 real, at env"""
    if not isinstance(t, E) or t.kind == "const":
        return z3.RealVal(0)
    k = t.kind
    if k == "sym":
        return z3.RealVal(1) if t is s else z3.RealVal(0)
    if k in ("OP_ADD", "OP_SUB", "OP_MUL", "OP_DIV"):
        a, b = t.deps
        da, db = partial(a, s, env), partial(b, s, env)
        va, vb = denote(a, env), denote(b, env)
        if k == "OP_ADD":
            return da + db
        if k == "OP_SUB":
            return da - db
        if k == "OP_MUL":
            return da * vb + va * db
        return (da * vb - va * db) / (vb * vb)
    if k == "OP_NEG":
        return -partial(t.deps[0], s, env)
    raise Unsupported("partial derivative of %s" % k)


def substitute_term(t, variables, values):
    """t with every occurrence of a symbol of `variables` replaced by the matching value, simultaneously (ca.substitute)"""
    if not isinstance(t, E):
        return t
    if t.kind == "sym":
        for v, val in zip(variables, values):
            if v is t:
                return val if isinstance(val, E) else const(_val(val))
        return t
    if t.kind in ("const", "opaque"):
        return t
    if t.kind == "chain":
        expr, deps, ders = t.deps
        if any(any(v is d for d in deps) for v in variables):
            raise Unsupported("substitution of a symbol the derivative was taken with respect to")
        return E("chain", substitute_term(expr, variables, values), deps, tuple(substitute_term(d, variables, values) for d in ders))
    new = [substitute_term(d, variables, values) for d in t.deps]
    if all(a is b for a, b in zip(new, t.deps)):
        return t
    return E(t.kind, *new, name=t.nm, value=t.value)


def same_term(a, b):
    """structural equality (ca.is_equal with unlimited depth)"""
    if a is b:
        return True
    if isinstance(a, VecT) and isinstance(b, VecT):
        return len(a.items) == len(b.items) and all(same_term(x, y) for x, y in zip(a.items, b.items))
    if not (isinstance(a, E) and isinstance(b, E)) or a.kind != b.kind:
        return False
    if a.kind == "sym":
        return False
    if a.kind in ("const", "opaque"):
        return z3.is_true(z3.simplify(a.value == b.value)) if ops.is_sym(a.value) or ops.is_sym(b.value) else a.value == b.value
    if a.kind == "chain":
        return False
    return len(a.deps) == len(b.deps) and all(same_term(x, y) for x, y in zip(a.deps, b.deps))


def substitution_functions(log=None):
    """ca.substitute / ca.is_equal / ca.veccat with their meaning on the term algebra; every substitute call is logged"""
    def substitute(eng, exprs, variables, values):
        vs, vals = list(eng.iterate(variables)), list(eng.iterate(values))
        single = isinstance(exprs, E)
        items = [exprs] if single else list(eng.iterate(exprs))
        out = [substitute_term(x, vs, vals) for x in items]
        if log is not None:
            log.append((exprs, vs, vals, out))
        return out[0] if single else VList(out)
    return {"substitute": stub(substitute), "is_equal": stub(lambda eng, a, b, *depth: same_term(a, b)), "veccat": stub(lambda eng, *a: VecT(a))}


class VecT(Ext):
    """ca.vertcat(*terms): a column of scalar terms"""
    type_names = ("MX",)

    def __init__(self, items):
        self.items = list(items)


class JacT(Ext):
    """ca.jacobian(expr, vertcat(deps)); also the ca.Function J built from it, its sparsity, and J(deps)"""
    type_names = ("MX", "Function")

    def __init__(self, expr, deps):
        self.expr, self.deps = expr, list(deps)

    def sym_getattr(self, eng, name):
        if name == "sparsity_out":
            return stub(lambda eng, k: self)
        if name == "has_nz":
            # structural non-zero: the expression mentions the symbol
            return stub(lambda eng, i, j: any(self.deps[j] is x for x in symbols_of(self.expr)))
        raise Unsupported("jacobian.%s" % name)

    def sym_call(self, eng, args, kwargs):
        return self


def chain_module_functions():
    def function(eng, c, a, k):
        outs = eng.iterate(a[2])
        if len(outs) == 1 and isinstance(outs[0], JacT):
            return outs[0]
        raise Unsupported("ca.Function of something else than a jacobian")
    fn = VClass("Function")
    fn.constructor = function

    def mtimes(eng, j, v):
        if isinstance(j, JacT) and isinstance(v, VecT) and len(v.items) == len(j.deps):
            return E("chain", j.expr, tuple(j.deps), tuple(v.items))
        raise Unsupported("mtimes of these operands")
    dm = VClass("DM")
    dm.attrs["zeros"] = stub(lambda eng, *a: const(z3.RealVal(0)))
    return {"symvar": stub(lambda eng, t: VList(symbols_of(t))), "vertcat": stub(lambda eng, *a: VecT(a)),
            "jacobian": stub(lambda eng, e, v: JacT(e, v.items if isinstance(v, VecT) else [v])), "Function": fn, "mtimes": stub(mtimes), "DM": dm}


def casadi_module():
    m = ModuleStub("casadi", {k_: v_ for k_, v_ in OPS.items() if k_ != "OP_OTHER"})
    m.attrs["if_else"] = stub(if_else)
    # ca.depends_on(e, v) asks whether e's VALUE depends on v (Jacobian sparsity).  An expression graph can mention a symbol its value
    # does not depend on (vertcat(a1, a2, a3)[1:3] mentions a1), so for the question "may a symbol be left unsubstituted" the answer
    # of depends_on is no evidence: it is an arbitrary Boolean here
    m.attrs["veccat"] = stub(lambda eng, *a: VecT(a))
    m.attrs["vertcat"] = stub(lambda eng, *a: VecT(a))
    m.attrs["depends_on"] = stub(lambda eng, e, v: eng.fresh_bool("depends_on"))
    mx = VClass("MX")
    mx.constructor = lambda eng, c, a, k: a[0] if isinstance(a[0], E) else const(_val(a[0]))
    mx.attrs["sym"] = stub(lambda eng, name, *shape: sym(name))
    m.attrs["MX"] = mx
    return m


def install(eng, extra=None):
    typing = ModuleStub("typing", {})
    cas = casadi_module()
    if extra:
        cas.attrs.update(extra)
    eng.ext_modules.update({"casadi": cas, "numpy": ModuleStub("numpy", {"nan": float("nan"), "inf": float("inf")}),
                            "logging": ModuleStub("logging", {"getLogger": stub(lambda eng, *a: NoOp()), "DEBUG": 10}),
                            "itertools": itertools_module(),
                            "re": ModuleStub("re", {}), "sys": ModuleStub("sys", {"maxsize": 2 ** 63 - 1}),
                            "collections": CollectionsStub(), "typing": typing})
    eng.call_contracts.clear()
    eng.loop_specs.clear()
    return cas


def block_selector(option_name):
    """body of `if options["<option_name>"] ...:` in Model._simplify_once"""
    import ast

    def sel(fn):
        for n in ast.walk(fn):
            if isinstance(n, ast.If):
                for c in ast.walk(n.test):
                    if isinstance(c, ast.Subscript) and isinstance(c.value, ast.Name) and c.value.id == "options" and \
                            isinstance(c.slice, ast.Constant) and c.slice.value == option_name:
                        return n.body
        raise KeyError(option_name)
    return sel


from .model_common import new_model  # noqa: E402,F401
