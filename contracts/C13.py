"""C13 -- variable metadata reports the declared attributes.

Functions under contract (real source, whole functions):
  Variable.__init__                         defaults
  Generator._ast_symbols_to_variables       attribute copy + type coercion (one symbol)
  Model.variable_metadata_function          matrix layout; the affine rebuild is only used when
                                            every attribute block is affine in the WHOLE parameter
                                            vector, and then is  reshape(J(0) p, shape) + f(0)
CasADi expressions are opaque terms with two ghost facts: `affine_in_all` (affine in the whole
parameter vector) and, per parameter, `affine_in[p]` (affine in that parameter alone);
affine_in_all implies every affine_in[p], not conversely (p1*p2).  Assumed contract:
jacobian(jacobian(e, v), v).is_zero()  <=>  e is affine in v.
"""
import math

import z3

from pyvc import ops
from pyvc.values import Ext, NoOp, PyRaise, Unsupported, VBound, VClass, VDict, VList, VObj, VSet, stub

from .api_common import CollectionsStub, ModuleStub, itertools_module

MODEL = "pymoca.backends.casadi.model"
GEN = "pymoca.backends.casadi.generator"
ATTRS = ("value", "min", "max", "start", "fixed", "nominal")


class T(Ext):
    """an opaque CasADi term with provenance"""
    type_names = ("MX",)

    def __init__(self, kind, args=(), **facts):
        self.kind, self.args, self.facts = kind, tuple(args), facts

    def sym_isinstance(self, eng, cls):
        return cls.name in ("MX",) or (cls.name == "DM" and self.facts.get("dm", False))

    def sym_getattr(self, eng, name):
        if name == "is_zero":
            return stub(lambda eng: self._is_zero(eng))
        if name == "is_one":
            return stub(lambda eng: self.facts.get("is_one", False))
        if name == "numel":
            return stub(lambda eng: self.facts.get("numel", 1))
        if name == "size":
            return stub(lambda eng: self.facts.get("shape", (1, 1)))
        if name == "shape":
            return self.facts.get("shape", (1, 1))
        if name == "is_constant":
            return stub(lambda eng: self.kind in ("const",))
        raise Unsupported("MX.%s" % name)

    def _is_zero(self, eng):
        # jacobian(jacobian(e, v), v).is_zero()  <=>  e affine in v   (assumed CasADi contract)
        if self.kind == "jacobian" and isinstance(self.args[0], T) and self.args[0].kind == "jacobian" and self.args[0].args[1] is self.args[1]:
            e, v = self.args[0].args[0], self.args[1]
            return affine_in(eng, e, v)
        return self.facts.get("is_zero", False)

    def sym_binop(self, eng, op, other, reflected):
        return T("binop:" + op, (other, self) if reflected else (self, other), shape=self.facts.get("shape", (1, 1)))

    def sym_eq(self, eng, other):
        return self is other

    def __repr__(self):
        return "T(%s)" % self.kind


def affine_in(eng, e, v):
    w = eng.c13
    if e.kind == "horzcat":
        # a block is affine in v iff all its entries are
        leaves = [x for col in e.args for x in (col.args if isinstance(col, T) and col.kind == "veccat" else [col])]
        return ops.and_([affine_in(eng, _leaf(x), v) for x in leaves])
    if e.kind in ("repmat",):
        return affine_in(eng, e.args[0], v)
    if e.kind in ("const", "zero", "one"):
        return True
    if e.kind == "attr":
        if v is w["in_var"]:
            return e.facts["affine_all"]
        if isinstance(v, T) and v.kind == "sym":
            return e.facts["affine_in"][v.facts["name"]]
    raise Unsupported("affinity of %r in %r" % (e, v))


def _leaf(x):
    while isinstance(x, T) and x.kind in ("repmat",):
        x = x.args[0]
    return x


class FunctionT(Ext):
    type_names = ("Function",)

    def __init__(self, name, ins, outs):
        self.name, self.ins, self.outs = name, ins, outs

    def sym_getattr(self, eng, name):
        if name == "n_instructions":
            return stub(lambda eng: 1)
        if name == "instruction_id":
            return stub(lambda eng, k: OpId(self))
        raise Unsupported("Function.%s" % name)

    def sym_call(self, eng, args, kwargs):
        return T("eval", (self,) + tuple(args), shape=self.outs[0].facts.get("shape", (1, 1)) if isinstance(self.outs[0], T) else (1, 1))


class OpId(Ext):
    def __init__(self, fn):
        self.fn = fn


# Which CasADi operations the structural zero-Hessian test judges correctly.  An expression over AFFINE_SAFE and SMOOTH operations whose
# Hessian is structurally zero is affine (mathematics: a smooth elementary operation that is not affine has a second derivative
# CasADi does not drop).  Every OTHER operation (|x|, min, max, if_else_zero, sign, floor, comparisons, an opaque function CALL, ...)
# can make a non-affine expression with a structurally zero Hessian: the test is blind to it, and only the list of allowed operations
# keeps such an expression out of the affine rebuild.
AFFINE_SAFE = {"OP_INPUT", "OP_OUTPUT", "OP_CONST", "OP_PARAMETER", "OP_ADD", "OP_SUB", "OP_MUL", "OP_DIV", "OP_NEG", "OP_TWICE", "OP_ASSIGN"}
SMOOTH = {"OP_SQ", "OP_SIN", "OP_COS", "OP_TAN", "OP_ASIN", "OP_ACOS", "OP_ATAN", "OP_ATAN2", "OP_SINH", "OP_COSH", "OP_TANH", "OP_ASINH", "OP_ACOSH",
          "OP_ATANH", "OP_EXP", "OP_LOG", "OP_SQRT", "OP_POW", "OP_CONSTPOW", "OP_INV", "OP_ERF", "OP_ERFINV", "OP_LOG1P", "OP_EXPM1", "OP_HYPOT"}


# operations whose symbolic presence is reported in counterexamples (all operation codes are symbolic; these are named)
REPORTED_OPS = {"OP_FABS", "OP_FMIN", "OP_FMAX", "OP_IF_ELSE_ZERO", "OP_SIGN", "OP_FLOOR", "OP_CEIL", "OP_CALL", "OP_LT", "OP_LE", "OP_NOT", "OP_FMOD"}


def blind_ops():
    from .casadi_facts import casadi_facts
    return sorted(n for n in casadi_facts()["op_codes"] if n not in AFFINE_SAFE and n not in SMOOTH)


class OpSet(Ext):
    """{f.instruction_id(k) ...} of the function built from one attribute block: which operations occur in it is symbolic (one
    Boolean per operation code of the installed CasADi); issubset(allowed) is decided against the set the real code passes"""

    def __init__(self, fn):
        self.fn = fn

    def sym_getattr(self, eng, name):
        if name == "issubset":
            def issubset(eng, allowed):
                from .casadi_facts import casadi_facts
                codes = casadi_facts()["op_codes"]
                allowed_codes = set(int(x) for x in eng.iterate(allowed))
                uses = eng.c13["uses"][id(self.fn.outs[0])]
                return z3.And([z3.Not(uses[n]) for n, c in codes.items() if c not in allowed_codes] + [z3.BoolVal(True)])
            return stub(issubset)
        raise Unsupported("set.%s" % name)


def casadi(eng):
    mx = VClass("MX")

    def mx_ctor(eng, c, a, k):
        v = a[0]
        if isinstance(v, T):
            return v
        if isinstance(v, Probe):
            return v.term
        if isinstance(v, (int, float)) and not isinstance(v, bool):
            if v == 0:
                return T("zero", (), is_zero=True)
            if v == 1:
                return T("one", (), is_one=True)
        return T("const", (v,))
    mx.constructor = mx_ctor
    mx.attrs["sym"] = stub(lambda eng, name, *shape: T("sym", (), name=name, shape=tuple(shape[0]) if shape and isinstance(shape[0], tuple) else (tuple(shape) or (1, 1))))
    dm = VClass("DM")

    def dm_ctor(eng, c, a, k):
        v = a[0]
        if isinstance(v, T):
            raise PyRaise(eng.make_exc("NotImplementedError", "DM of MX"))
        if isinstance(v, (VList, NpArr)) or (isinstance(v, DMVal) and not v._scalar()):
            # a numeric matrix: a nested list is taken row by row, a 1-D sequence is a column
            rows = from_value(v)
            if rows is None:
                raise PyRaise(eng.make_exc("NotImplementedError", "DM of a non-numeric list"))
            if rows and not isinstance(rows[0], list):
                rows = [[x] for x in rows]
            dmv = DMVal(rows)
            return Probe(T("const", (dmv,), dm=True, numel=len(rows) * len(rows[0]), shape=(len(rows), len(rows[0]))))
        return Probe(T("const", (v,), dm=True) if not (isinstance(v, (int, float)) and v in (0, 1) and not isinstance(v, bool)) else mx_ctor(eng, None, [v], {}))
    dm.constructor = dm_ctor
    fn = VClass("Function")
    fn.constructor = lambda eng, c, a, k: FunctionT(a[0], eng.iterate(a[1]), eng.iterate(a[2]))
    mod = ModuleStub("casadi", {
        "MX": mx, "DM": dm, "Function": fn,
        "repmat": stub(lambda eng, v, *shape: T("repmat", (v,), shape=shape[0] if len(shape) == 1 and isinstance(shape[0], tuple) else tuple(shape))),
        "veccat": stub(lambda eng, *a: T("veccat", a)), "horzcat": stub(lambda eng, *a: T("horzcat", a, shape=("rows", len(a)))),
        "jacobian": stub(lambda eng, e, v: T("jacobian", (e, v))), "sparsify": stub(lambda eng, e: T("sparsify", (e,))),
        "mtimes": stub(lambda eng, a, b: T("mtimes", (a, b))), "reshape": stub(lambda eng, e, shape: T("reshape", (e, shape))),
        "densify": stub(lambda eng, e: e if isinstance(e, DMVal) else T("densify", (e,))),
    })
    from .casadi_facts import casadi_facts
    for nme, code in casadi_facts()["op_codes"].items():
        mod.attrs[nme] = code
    return mod


class Probe(Ext):
    """result of ca.DM(x): passed straight to ca.MX(...)"""

    def __init__(self, term):
        self.term = term


def install(eng):
    typing = ModuleStub("typing", {})
    eng.ext_modules.update({"casadi": casadi(eng), "numpy": np_module(),
                            "logging": ModuleStub("logging", {"getLogger": stub(lambda eng, *a: NoOp())}),
                            "itertools": itertools_module(), "re": ModuleStub("re", {}), "sys": ModuleStub("sys", {"maxsize": 2 ** 63 - 1}),
                            "collections": CollectionsStub(), "typing": typing})
    eng.call_contracts.clear()
    eng.loop_specs.clear()
    eng.c13 = {"uses": {}}


def h_defaults(eng):
    install(eng)
    mm = eng.load_module(MODEL)
    vcls = eng.module_global(mm, "Variable")
    dv = eng.module_global(mm, "_DefaultValue")
    dv.constructor = lambda eng, c, a, k: VObj(c, {"value": a[0] if a else 0})
    eng.find_function(MODEL, "Variable.__init__")
    sym = T("sym", (), name="x")
    with_type = bool(eng.choice(2))
    v = eng.call(vcls, [sym] + ([VClass("int")] if with_type else []), {})
    eng.cover("defaults.done")
    f = v.fields
    ok = isinstance(f.get("value"), float) and math.isnan(f["value"]) and isinstance(f.get("start"), VObj) and f["start"].cls is dv and \
        f["start"].fields.get("value") == 0 and f.get("min") == -math.inf and f.get("max") == math.inf and f.get("nominal") == 0 and \
        f.get("fixed") is False and f.get("symbol") is sym
    # (P) unspecified attributes: value NaN, start 0 (marked default), min -inf, max +inf, nominal 0, fixed false
    eng.prove("defaults.unspecified_attributes", z3.BoolVal(bool(ok)))
    eng.prove("defaults.python_type", z3.BoolVal((f.get("python_type").name == "int") if with_type else (f.get("python_type").name == "float")))
    eng.prove("defaults.own_alias_set", z3.BoolVal(f.get("aliases") is not None))


COERCE_VALUES = [("int", 3), ("float", 2.5), ("bool", True), ("nan", float("nan")), ("inf", float("inf")), ("intlike-float", 4.0), ("mx", "MX"), ("dm", "DM"),
                 ("dm-vector", "DMV"), ("dm-matrix", "DMM")]


def h_attribute_copy(eng):
    """_ast_symbols_to_variables on one symbol: every attribute with a value is copied to the
    same-named attribute; numbers keep / take the variable's Python type (NaN and inf stay float)"""
    from .ast_common import base_modules
    base_modules(eng)
    install(eng)
    gm = eng.load_module(GEN)
    gcls = eng.module_global(gm, "Generator")
    var_cls = eng.module_global(gm, "Variable")
    var_cls.constructor = lambda eng, c, a, k: VObj(c, {"symbol": a[0], "python_type": a[1]})
    f = eng.find_function(GEN, "Generator._ast_symbols_to_variables")
    pytype = ["float", "int", "bool"][eng.choice(3)]
    attr = ATTRS[eng.choice(len(ATTRS))]
    label, val = COERCE_VALUES[eng.choice(len(COERCE_VALUES))]
    scalar = bool(eng.choice(2))
    eng.input("case", {"python_type": pytype, "attribute": attr, "value": label, "scalar_symbol": scalar})
    # precondition: the attribute value is type-compatible with the declaration (Modelica type rules):
    # Boolean variables take Booleans, Integer variables integer-valued numbers (or NaN/inf defaults)
    if label in ("dm-vector", "dm-matrix") and (scalar or pytype == "bool"):
        from pyvc.values import PathEnd
        raise PathEnd()
    mshape = ((None,),) if scalar else (((2, 3),) if label == "dm-matrix" else ((3,),))
    if pytype == "bool" and label not in ("bool", "mx"):
        from pyvc.values import PathEnd
        raise PathEnd()
    if pytype == "int" and label in ("float", "bool"):
        from pyvc.values import PathEnd
        raise PathEnd()
    if pytype == "float" and label == "bool":
        from pyvc.values import PathEnd
        raise PathEnd()
    type_cls = eng.builtins[pytype]
    sym_attrs = eng.iterate(eng.getattr(eng.module_global(eng.load_module("pymoca.ast"), "Symbol"), "ATTRIBUTES"))
    node = {a: VObj(VClass("Node"), {"label": a}) for a in sym_attrs}
    s = VObj(VClass("Symbol"), {"name": "x", "prefixes": VList(["output"])})
    for a in sym_attrs:
        s.fields[a] = node[a]
    mx = T("sym", (), name="x")
    mx.attrs = {"_modelica_shape": ((None,),) if scalar else ((3,),)}
    mx.sym_getattr_orig = mx.sym_getattr

    class S(T):
        def sym_getattr(self, eng, name):
            if name == "_modelica_shape":
                return mshape
            if name == "is_empty":
                return stub(lambda eng: False)
            if name == "name":
                return stub(lambda eng: "x")
            return T.sym_getattr(self, eng, name)

        def sym_setattr(self, eng, name, value):
            pass
    mxs = S("sym", (), name="x")
    # array values computed at generation time (fill, ones, linspace, products ...) arrive as numeric matrices
    MAT = {"DMV": [[1.0], [2.0], [5.0]], "DMM": [[1.0, 2.0, 3.0], [4.0, 5.0, 6.0]]}
    given = T("attr", ()) if val == "MX" else (DMVal(7) if val == "DM" else (DMVal(MAT[val]) if val in MAT else val))

    def get_mx(eng, args, kw):
        t = args[1]
        if t is s:
            return mxs
        if t is node[attr]:
            return given
        return None
    eng.call_contracts["Generator.get_mx"] = get_mx
    eng.call_contracts["Generator.get_python_type"] = lambda eng, args, kw: type_cls
    g = VObj(gcls, {})
    try:
        res = eng.call(VBound(f, g), [VList([s])], {})
    except PyRaise as e:
        eng.prove("copy.no_exception", False, exc=repr(e.exc))
        return
    eng.cover("copy.done")
    v = res.items[0]
    got = v.fields.get(attr, "<unset>")
    others_unset = all(a not in v.fields for a in sym_attrs if a != attr)
    eng.prove("copy.only_given_attributes_are_set", z3.BoolVal(others_unset))
    pyt = {"float": float, "int": int, "bool": bool}[pytype]
    if val == "MX":
        eng.prove("copy.expression_attribute_kept", z3.BoolVal(got is given))
    elif val in ("DMV", "DMM"):
        # (P) an array-valued attribute keeps every element at its (row, column) position, however it is stored
        want = from_value(DMVal(MAT[val]))
        eng.prove("copy.numeric_array_attribute_keeps_every_element_in_place", z3.BoolVal(from_value(got) == want), got=repr(from_value(got)), declared=repr(want))
    elif val == "DM":
        if scalar:
            eng.prove("copy.numeric_matrix_of_scalar_coerced_to_python_type", z3.BoolVal(type(got) is pyt and got == pyt(7)))
        else:
            eng.prove("copy.numeric_matrix_of_array_kept", z3.BoolVal(got is given or from_value(got) == 7.0))
    else:
        # (P) value preserved; Integer / Real variables get their Python type except NaN/inf -> int
        same = (got == val) or (isinstance(val, float) and math.isnan(val) and isinstance(got, float) and math.isnan(got))
        eng.prove("copy.value_preserved", z3.BoolVal(bool(same)), got=repr(got))
        if isinstance(val, bool):
            eng.prove("copy.booleans_left_alone", z3.BoolVal(got is val or type(got) is pyt))
        elif isinstance(val, float) and (math.isnan(val) or math.isinf(val)) and pytype == "int":
            eng.prove("copy.nan_inf_not_forced_to_int", z3.BoolVal(isinstance(got, float)))
        elif pytype in ("int", "float"):
            eng.prove("copy.numbers_take_the_declared_python_type", z3.BoolVal(type(got) is pyt), got=repr(got))
    eng.prove("copy.prefixes_attached", z3.BoolVal(v.fields.get("prefixes") is s.fields["prefixes"]))


class DMVal(Ext):
    """a numeric CasADi matrix with concrete entries (rows of a dense matrix); the part of the DM interface that
    conversions of attribute values use is modelled on the entries: nonzeros() is COLUMN-major, full() the 2-D array"""
    type_names = ("DM",)

    def __init__(self, v):
        self.rows = [[float(x) for x in r] for r in v] if isinstance(v, list) else [[float(v)]]
        self.v = self.rows[0][0]

    def sym_isinstance(self, eng, cls):
        return cls.name == "DM"

    def _scalar(self):
        return len(self.rows) == 1 and len(self.rows[0]) == 1

    def sym_unop(self, eng, op):
        if op in ("int", "float") and not self._scalar():
            raise PyRaise(eng.make_exc("TypeError", "only a 1-by-1 DM converts to a number"))
        if op == "int":
            return int(self.v)
        if op == "float":
            return float(self.v)
        raise Unsupported("DM %s" % op)

    def sym_truth(self, eng):
        return bool(self.v)

    def sym_getattr(self, eng, name):
        r, c = len(self.rows), len(self.rows[0])
        table = {"is_scalar": lambda eng, *a: r * c == 1, "numel": lambda eng: r * c, "size1": lambda eng: r, "size2": lambda eng: c,
                 "nonzeros": lambda eng: VList([self.rows[i][j] for j in range(c) for i in range(r)]), "nnz": lambda eng: r * c,
                 "is_dense": lambda eng: True, "is_empty": lambda eng, *a: False, "is_vector": lambda eng: r == 1 or c == 1, "is_column": lambda eng: c == 1,
                 "full": lambda eng: NpArr(_np().array(self.rows)), "toarray": lambda eng, *a: NpArr(_np().array(self.rows)),
                 "elements": lambda eng: VList([self.rows[i][j] for j in range(c) for i in range(r)]),
                 "size": lambda eng, *a: (r, c) if not a else (r, c)[a[0] - 1]}
        if name == "shape":
            return (r, c)
        if name == "T":
            return DMVal([[self.rows[i][j] for i in range(r)] for j in range(c)])
        if name in table:
            return stub(table[name])
        raise Unsupported("DM.%s" % name)

    def sym_getitem(self, eng, key):
        if isinstance(key, tuple) and len(key) == 2 and all(isinstance(k, int) for k in key):
            return DMVal(self.rows[key[0]][key[1]])
        if isinstance(key, int):
            r = len(self.rows)
            return DMVal(self.rows[key % r][key // r])
        raise Unsupported("DM[%r]" % (key,))


def _np():
    import numpy
    return numpy


class NpArr(Ext):
    """a concrete numpy array (the VC generator's own numpy does the arithmetic: numpy's semantics, row-major reshape)"""
    type_names = ("ndarray",)

    def __init__(self, a):
        self.a = a

    def sym_isinstance(self, eng, cls):
        return cls.name == "ndarray"

    def sym_getattr(self, eng, name):
        if name == "reshape":
            def reshape(eng, *dims, **kw):
                d = dims[0] if len(dims) == 1 and not isinstance(dims[0], int) else dims
                d = [int(x) for x in (eng.iterate(d) if not isinstance(d, (tuple, list)) else d)]
                return NpArr(self.a.reshape(d, order=kw.get("order", "C")))
            return stub(reshape)
        if name == "tolist":
            return stub(lambda eng: to_vlist(self.a.tolist()))
        if name == "shape":
            return tuple(self.a.shape)
        if name == "T":
            return NpArr(self.a.T)
        if name in ("flatten", "ravel"):
            return stub(lambda eng, order="C": NpArr(self.a.flatten(order=order)))
        if name == "astype":
            return stub(lambda eng, t: NpArr(self.a.astype({"int": int, "float": float, "bool": bool}[t.name])))
        raise Unsupported("ndarray.%s" % name)

    def sym_len(self, eng):
        return len(self.a)


def to_vlist(x):
    return VList([to_vlist(e) for e in x]) if isinstance(x, list) else x


def from_value(x):
    """the matrix / vector a stored attribute value denotes, as nested Python lists (None: not a numeric array)"""
    if isinstance(x, DMVal):
        return [r[0] for r in x.rows] if len(x.rows[0]) == 1 else x.rows
    if isinstance(x, NpArr):
        return x.a.tolist()
    if isinstance(x, VList):
        out = [from_value(e) for e in x.items]
        return None if any(o is None for o in out) else out
    if isinstance(x, (int, float)):
        return float(x)
    return None


def np_module():
    def array(eng, data, dtype=None, **kw):
        dt = kw.get("dtype", dtype)
        raw = from_value(data) if not isinstance(data, NpArr) else data.a
        if raw is None:
            raise Unsupported("np.array of a non-numeric value")
        return NpArr(_np().array(raw, dtype={"int": int, "float": float, "bool": bool}.get(getattr(dt, "name", None) or getattr(dt, "__name__", None))))

    def prod(eng, xs):
        r = 1
        for x in (eng.iterate(xs) if not isinstance(xs, NpArr) else xs.a.tolist()):
            r *= x
        return r
    return ModuleStub("numpy", {"nan": float("nan"), "inf": float("inf"), "array": stub(array), "asarray": stub(array), "prod": stub(prod), "ndarray": VClass("ndarray"),
                                "reshape": stub(lambda eng, a, d, **kw: eng.call(eng.getattr(a, "reshape", None, None), [d], kw))})


SHAPES = [  # parameters, then per category list of numel (1 = scalar)
    (1, {"states": [1], "alg_states": [], "inputs": [], "parameters": [1], "constants": []}),
    (2, {"states": [3, 1], "alg_states": [1], "inputs": [], "parameters": [1, 1], "constants": [1]}),
    (0, {"states": [1], "alg_states": [], "inputs": [1], "parameters": [], "constants": [1]}),
    (2, {"states": [], "alg_states": [2], "inputs": [1], "parameters": [1, 2], "constants": []}),
    (1, {"states": [1], "alg_states": [(2, 3)], "inputs": [], "parameters": [1], "constants": []}),     # a 2-D variable; its `max` is a matrix literal
]
MATRIX_LITERAL = [[1.0, 2.0, 3.0], [4.0, 5.0, 6.0]]


def h_metadata_function(eng):
    install(eng)
    mm = eng.load_module(MODEL)
    cls = eng.module_global(mm, "Model")
    f = eng.find_function(MODEL, "Model.variable_metadata_function")
    npar, shape = SHAPES[eng.choice(len(SHAPES))]
    eng.input("shape", shape)
    cats = ["states", "alg_states", "inputs", "parameters", "constants"]
    pnames = ["p%d" % i for i in range(len(shape["parameters"]))]
    m = new_model(eng, cls)
    attrs_of = {}
    for c in cats:
        lst = []
        for i, numel in enumerate(shape[c]):
            vshape = numel if isinstance(numel, tuple) else (numel, 1)
            numel = vshape[0] * vshape[1]
            sym = T("sym", (), name="%s%d" % (c[0], i) if c != "parameters" else pnames[i], shape=vshape)
            v = VObj(VClass("Variable"), {"symbol": sym})
            for a in ATTRS:
                if vshape[1] > 1 and a == "max":
                    # an array literal attribute, as the generator stores it: a nested list of numbers
                    v.fields[a] = to_vlist(MATRIX_LITERAL)
                    attrs_of[(c, i, a)] = "matrix-literal"
                    continue
                t = T("attr", (), label="%s%d.%s" % (c, i, a), numel=(1 if eng.choice(2) == 0 else numel) if numel > 1 and a == "min" else 1,
                      affine_all=eng.fresh_bool("aff_all"), affine_in={p: eng.fresh_bool("aff_" + p) for p in pnames})
                # affine in the whole vector implies affine in each parameter
                for p in pnames:
                    eng.assume(z3.Implies(t.facts["affine_all"], t.facts["affine_in"][p]))
                v.fields[a] = t
                attrs_of[(c, i, a)] = t
            lst.append(v)
        m.fields[c] = VList(lst)
    expanded = []
    cls.attrs["_expand_mx_func"] = _record_method(expanded)
    cls.attrs["_symbols"] = _symbols_method
    uses = eng.c13["uses"]

    # instruction sets: one symbolic "contains an operation outside the allowed list" per block
    def set_comp_hook():
        pass
    # the real code builds {f.instruction_id(k) for k in range(f.n_instructions())}; our Function
    # stub yields OpId values; the set of them is modelled by OpSet through the builtin set display
    orig_setcomp = eng.ev_SetComp

    def ev_setcomp(e, frame):
        r = orig_setcomp(e, frame)
        ids = [x for x in r.items if isinstance(x, OpId)]
        if ids:
            blk = ids[0].fn.outs[0]
            if id(blk) not in uses:
                from .casadi_facts import casadi_facts
                k_ = len(uses)
                blind = set(blind_ops())
                uses[id(blk)] = {n: (eng.input("block%d.uses[%s]" % (k_, n), eng.fresh_bool("uses_%s" % n)) if n in blind and n in REPORTED_OPS else eng.fresh_bool("uses_%s" % n))
                                 for n in casadi_facts()["op_codes"]}
            return OpSet(ids[0].fn)
        return r
    eng.ev_SetComp = ev_setcomp
    try:
        r = eng.call_function(f, [m], {})
    except PyRaise as e:
        eng.prove("meta.no_exception", False, exc=repr(e.exc))
        return
    finally:
        del eng.ev_SetComp
    eng.cover("meta.done")
    fn = expanded[0] if expanded else None
    if not isinstance(fn, FunctionT) or len(fn.outs) != 5:
        eng.prove("meta.one_output_matrix_per_category", False)
        return
    eng.prove("meta.one_output_matrix_per_category", True)
    in_var = eng.c13.get("in_var")
    # ---- layout of the (un-rebuilt) blocks: recover them through the rebuild wrappers
    blocks, rebuilt = [], []
    for o in fn.outs:
        b, rb = _unwrap_rebuild(o)
        blocks.append(b)
        rebuilt.append(rb)
    for c, blk in zip(cats, blocks):
        ok = isinstance(blk, T) and blk.kind == "horzcat" and len(blk.args) == len(ATTRS)
        if ok:
            for j, (a, col) in enumerate(zip(ATTRS, blk.args)):
                ok = ok and isinstance(col, T) and col.kind == "veccat" and len(col.args) == len(shape[c])
                if not ok:
                    break
                for i, (numel, entry) in enumerate(zip(shape[c], col.args)):
                    src = attrs_of[(c, i, a)]
                    if src == "matrix-literal":
                        # the variable's rows in the metadata matrix follow ca.veccat of the 2-D symbol: column by column
                        dmv = entry.args[0] if isinstance(entry, T) and entry.kind == "const" and entry.args and isinstance(entry.args[0], DMVal) else None
                        colmajor = [dmv.rows[r_][c_] for c_ in range(len(dmv.rows[0])) for r_ in range(len(dmv.rows))] if dmv is not None else None
                        want_cm = [MATRIX_LITERAL[r_][c_] for c_ in range(3) for r_ in range(2)]
                        eng.prove("meta.matrix_literal_attribute_keeps_every_element_on_its_own_row", z3.BoolVal(colmajor == want_cm), got=repr(colmajor), declared=repr(want_cm))
                        continue
                    numel = numel[0] * numel[1] if isinstance(numel, tuple) else numel
                    base = _leaf(entry)
                    ok = ok and base is src
                    # a scalar attribute of an array variable is repeated to the variable's size
                    if src.facts.get("numel", 1) == 1 and numel != 1:
                        ok = ok and isinstance(entry, T) and entry.kind == "repmat"
        eng.prove("meta.columns_are_attributes_rows_are_variables_in_order", z3.BoolVal(bool(ok)), category=c)
    # ---- affine rebuild only when every block is affine in the whole parameter vector and uses allowed ops
    any_rebuilt = any(rebuilt)
    eng.prove("meta.rebuild_all_or_none", z3.BoolVal(all(rebuilt) or not any_rebuilt))
    if any_rebuilt:
        conds = []
        for blk in blocks:
            leaves = [attrs_of[k] for k in attrs_of]
        all_affine = z3.And([t.facts["affine_all"] for t in attrs_of.values() if isinstance(t, T)]) if attrs_of else z3.BoolVal(True)
        eng.prove("meta.rebuild_only_if_affine_in_whole_parameter_vector", all_affine)
        # (P) the affine rebuild evaluates J(0) p + f(0): that equals the attributes only if they ARE affine, and the zero-Hessian test
        # vouches for that only in the absence of the operations it is blind to
        blind = blind_ops()
        eng.prove("meta.rebuild_only_without_operations_the_zero_hessian_test_is_blind_to",
                  z3.Not(z3.Or([u[n] for u in uses.values() for n in blind] + [z3.BoolVal(False)])))
        eng.prove("meta.rebuild_only_with_parameters", z3.BoolVal(len(pnames) > 0))
        for o in fn.outs:
            eng.prove("meta.rebuild_is_jacobian_at_zero_times_p_plus_value_at_zero", z3.BoolVal(_is_affine_form(o)))


def _unwrap_rebuild(o):
    """o_ = reshape(mtimes(sparsify(Af(0)), in_var_), o.shape) + sparsify(bf(0))  ->  (o, True)"""
    if isinstance(o, T) and o.kind == "binop:Add":
        l, r = o.args
        if isinstance(l, T) and l.kind == "reshape" and isinstance(r, T) and r.kind == "sparsify":
            ev = r.args[0]
            if isinstance(ev, T) and ev.kind == "eval" and isinstance(ev.args[0], FunctionT):
                return ev.args[0].outs[0], True
    return o, False


def _is_affine_form(o):
    if not (isinstance(o, T) and o.kind == "binop:Add"):
        return False
    l, r = o.args
    try:
        mt = l.args[0]
        A = mt.args[0].args[0]          # sparsify(Af(0))
        bf = r.args[0]                  # bf(0)
        Af, zero1 = A.args[0], A.args[1]
        bfn, zero2 = bf.args[0], bf.args[1]
        jac = Af.outs[0]
        return l.kind == "reshape" and mt.kind == "mtimes" and zero1 == 0 and zero2 == 0 and jac.kind == "jacobian" and \
            jac.args[0] is bfn.outs[0] and jac.args[1] is Af.ins[0] and bfn.ins[0] is Af.ins[0] and \
            isinstance(mt.args[1], T) and mt.args[1].kind == "sym"
    except (AttributeError, IndexError):
        return False


def _record_method(store):
    def m(eng, selfobj, f):
        store.append(f)
        return f
    m._pyvc_method = True
    return m


def _symbols(eng, selfobj, variables):
    syms = [v.fields["symbol"] for v in eng.iterate(variables)]
    return VList(syms)


_symbols._pyvc_method = True
_symbols_method = _symbols

# the whole parameter vector is the veccat of the parameter symbols built first in the function
_orig_casadi = casadi


def casadi(eng):  # noqa: F811  (wrap veccat to remember in_var)
    mod = _orig_casadi(eng)
    inner = mod.attrs["veccat"]

    def veccat(eng, *a):
        t = T("veccat", a)
        if "in_var" not in eng.c13 and all(isinstance(x, T) and x.kind == "sym" for x in a):
            eng.c13["in_var"] = t
        return t
    mod.attrs["veccat"] = stub(veccat)
    return mod


# ------------------------------------------------------------------------------------------------ _substitute_metadata
class Attr(Ext):
    """an MX-valued attribute: a constant, or an expression that a substitution turns into `outcome`"""
    type_names = ("MX",)

    def __init__(self, label, kind, outcome=None):
        self.label, self.kind, self.outcome = label, kind, outcome    # kind: const | expr | result

    def sym_getattr(self, eng, name):
        if name == "is_constant":
            return stub(lambda eng: self.kind == "const" or (self.kind == "result" and self.outcome in ("number", "integral", "inf", "nan", "vector-constant")))
        if name == "is_regular":
            return stub(lambda eng: self.kind == "result" and self.outcome in ("number", "integral"))
        if name == "shape":
            return (3, 1) if self.outcome == "vector-constant" else (1, 1)
        raise Unsupported("MX.%s" % name)

    def sym_unop(self, eng, op):
        if op == "float" and self.kind == "result":
            return {"number": 2.5, "integral": 4.0, "inf": float("inf"), "nan": float("nan")}[self.outcome]
        raise Unsupported("%s() of %s" % (op, self.label))


OUTCOMES = ["expression", "number", "integral", "inf", "vector-constant"]


def h_substitute_metadata(eng):
    """Model._substitute_metadata (used by every replace_* / elimination step): each MX-valued, non-constant attribute gets ITS OWN
    substituted expression (positions of the zip stay aligned over variables and attributes), everything else is left alone, and a
    result that became a constant scalar is stored as a number of the variable's declared Python type (inf / nan stay floats)."""
    install(eng)
    mm = eng.load_module(MODEL)
    cls = eng.module_global(mm, "Model")
    f = eng.find_function(MODEL, "Model._substitute_metadata")
    ptypes = [eng.builtins["float"], eng.builtins["int"], eng.builtins["bool"]]
    names = ["float", "int", "bool"]
    pattern = eng.choice(4)
    eng.input("expression_attribute_pattern", pattern)
    # which (variable, attribute) pairs hold an expression, and what the substitution makes of each
    where = [[(0, "value"), (1, "max"), (2, "start")], [(0, "min"), (0, "max"), (1, "value")], [(2, "value"), (1, "nominal"), (1, "start"), (0, "fixed")], []][pattern]
    outs = {pos: OUTCOMES[eng.choice(len(OUTCOMES))] for pos in where}
    eng.input("substitution_outcomes", {"%s.%s" % (names[i], a): o for (i, a), o in outs.items()})
    variables, orig = [], {}
    cats = ["states", "alg_states", "parameters"]
    m = VObj(cls, {c: VList([]) for c in ("states", "alg_states", "inputs", "parameters", "constants")})
    for i in range(3):
        v = VObj(VClass("Variable"), {"symbol": T("sym", (), name="v%d" % i), "python_type": ptypes[i]})
        for a in ATTRS:
            if (i, a) in outs:
                val = Attr("v%d.%s" % (i, a), "expr", outs[(i, a)])
            elif a == "min":
                val = Attr("v%d.min" % i, "const")
            else:
                val = {"value": float("nan"), "max": float("inf"), "start": 0, "fixed": False, "nominal": 1}[a]
            v.fields[a] = val
            orig[(i, a)] = val
        variables.append(v)
        m.fields[cats[i]].items.append(v)
    results = {}

    def substitute(eng, exprs, symbols, values):
        out = []
        for e in eng.iterate(exprs):
            r = Attr("subst(%s)" % e.label, "result", e.outcome)
            r.of = e
            results[id(e)] = r
            out.append(r)
        return VList(out)
    eng.ext_modules["casadi"].attrs["substitute"] = stub(substitute)
    eng.call(VBound(f, m), [VList([T("sym", (), name="p")]), VList([1.0])], {})
    eng.cover("submeta.done")
    ok_untouched, ok_own, ok_type = True, True, True
    for i, v in enumerate(variables):
        for a in ATTRS:
            got, was = v.fields.get(a), orig[(i, a)]
            if (i, a) not in outs:
                ok_untouched = ok_untouched and got is was
                continue
            r = results.get(id(was))
            out = outs[(i, a)]
            numeric = names[i] in ("int", "float") and a in ("value", "start", "min", "max", "nominal")
            if out in ("expression", "vector-constant") or not numeric:
                ok_own = ok_own and r is not None and got is r
            else:
                want = {"number": 2.5, "integral": 4.0, "inf": float("inf")}[out]
                ok_own = ok_own and isinstance(got, (int, float)) and not isinstance(got, bool) and float(got) == (float(int(want)) if names[i] == "int" and out != "inf" else want)
                if out == "inf":
                    ok_type = ok_type and isinstance(got, float)
                else:
                    ok_type = ok_type and type(got).__name__ == names[i]
    eng.prove("submeta.other_attributes_left_alone", z3.BoolVal(bool(ok_untouched)))
    eng.prove("submeta.each_expression_attribute_gets_its_own_substituted_value", z3.BoolVal(bool(ok_own)))
    eng.prove("submeta.constant_results_stored_in_the_declared_python_type", z3.BoolVal(bool(ok_type)))


def new_model(eng, cls):
    """a Model built by its REAL constructor (so that fields added to __init__ exist), without the instance-level _expand_mx_func
    (the harnesses record expansion through the class attribute)"""
    from .api_common import ModuleStub as _MS
    cas = eng.ext_modules["casadi"]
    mxc = cas.attrs.get("MX")
    if isinstance(mxc, VClass) and "sym" not in mxc.attrs:
        mxc.attrs["sym"] = stub(lambda eng, name, *shape: T("sym", (), name=name))
    try:
        m = eng.call(cls, [], {})
    except (Unsupported, PyRaise):
        return VObj(cls, {})
    m.fields.pop("_expand_mx_func", None)
    return m


def h_metadata_reread(eng):
    """The metadata function is a PROPERTY of the model's current state: read, change the model the way simplification steps do
    (a category list replaced by another list; an attribute of a variable rewritten in place), read again -- the second function
    is built from the variables and attribute values the model has NOW (no stale copy of an earlier read)."""
    install(eng)
    mm = eng.load_module(MODEL)
    cls = eng.module_global(mm, "Model")
    f = eng.find_function(MODEL, "Model.variable_metadata_function")
    m = new_model(eng, cls)

    def var(name, numel=1):
        v = VObj(VClass("Variable"), {"symbol": T("sym", (), name=name, shape=(numel, 1))})
        for a in ATTRS:
            v.fields[a] = T("attr", (), label="%s.%s" % (name, a), numel=1, affine_all=False, affine_in={})
        return v
    for c in ("states", "alg_states", "inputs", "parameters", "constants"):
        m.fields[c] = VList([])
    x, y = var("x"), var("y")
    m.fields["states"] = VList([x])
    m.fields["alg_states"] = VList([y])
    expanded = []
    cls.attrs["_expand_mx_func"] = _record_method(expanded)
    cls.attrs["_symbols"] = _symbols_method
    change = ["list-replaced", "attribute-rewritten", "variable-moved", "nothing"][eng.choice(4)]
    eng.input("change_between_the_reads", change)
    orig_setcomp = eng.ev_SetComp
    eng.ev_SetComp = lambda e, frame: VSetOf(orig_setcomp(e, frame))
    try:
        r1 = eng.call_function(f, [m], {})
        if change == "list-replaced":
            z = var("z")
            m.fields["states"] = VList([z, x])            # e.g. _expand_vectors / alias elimination assign new lists
        elif change == "attribute-rewritten":
            x.fields["max"] = T("attr", (), label="x.max#2", numel=1, affine_all=False, affine_in={})     # e.g. _substitute_metadata, alias merging
        elif change == "variable-moved":
            m.fields["alg_states"] = VList([])
            m.fields["constants"] = VList([y])            # eliminate_constant_assignments
        r2 = eng.call_function(f, [m], {})
    except PyRaise as e:
        eng.prove("reread.no_exception", False, exc=repr(e.exc))
        return
    finally:
        del eng.ev_SetComp
    eng.cover("reread.done")
    fn = expanded[-1] if expanded else None
    ok = isinstance(fn, FunctionT) and len(fn.outs) == 5
    if not ok:
        eng.prove("reread.second_read_reflects_the_current_model", False)
        return

    def leaves(blk):
        out = []
        if isinstance(blk, T) and blk.kind == "horzcat":
            for col in blk.args:
                out.append([_leaf(e) for e in (col.args if isinstance(col, T) and col.kind == "veccat" else [col])])
        return out
    cats = ["states", "alg_states", "inputs", "parameters", "constants"]
    good = True
    for c, o in zip(cats, fn.outs):
        b, _rb = _unwrap_rebuild(o)
        cols = leaves(b)
        cur = m.fields[c].items
        if not cur:
            continue
        good = good and len(cols) == len(ATTRS) and all(len(col) == len(cur) and all(e is v.fields[a] for e, v in zip(col, cur)) for a, col in zip(ATTRS, cols))
    eng.prove("reread.second_read_reflects_the_current_model", z3.BoolVal(bool(good)), change=change)


class VSetOf(Ext):
    """set of instruction ids of a block function: no operation outside the allowed list (irrelevant for this harness)"""

    def __init__(self, inner):
        self.inner = inner

    def sym_binop(self, eng, op, other, reflected):
        return VSet([])

    def sym_getattr(self, eng, name):
        if name in ("issubset", "difference", "__sub__"):
            return stub(lambda eng, *a: True if name == "issubset" else VSet([]))
        raise Unsupported("set.%s" % name)

    def sym_truth(self, eng):
        return False

    def sym_len(self, eng):
        return 0


class AT(Ext):
    """a CasADi value in an array literal: a scalar symbol / expression, or a concatenation (vertcat: the arguments stacked as rows
    of a column; horzcat: the arguments side by side as columns)"""
    type_names = ("MX",)

    def __init__(self, kind, args=(), label=None):
        self.kind, self.args, self.label = kind, tuple(args), label

    def shape(self):
        if self.kind == "scalar":
            return (1, 1)
        shapes = [a.shape() if isinstance(a, AT) else (1, 1) for a in self.args]
        if self.kind == "vcat":
            return (sum(r for r, _ in shapes), shapes[0][1] if shapes else 0)
        return (shapes[0][0] if shapes else 0, sum(c for _, c in shapes))

    def entry(self, r, c):
        if self.kind == "scalar":
            return self if (r, c) == (0, 0) else None
        for a in self.args:
            ar, ac = a.shape() if isinstance(a, AT) else (1, 1)
            if self.kind == "vcat":
                if r < ar:
                    return a.entry(r, c) if isinstance(a, AT) else (a if c == 0 else None)
                r -= ar
            else:
                if c < ac:
                    return a.entry(r, c) if isinstance(a, AT) else (a if r == 0 else None)
                c -= ac
        return None

    def sym_isinstance(self, eng, cls):
        return cls.name == "MX"

    def sym_getattr(self, eng, name):
        if name == "is_scalar":
            return stub(lambda eng, *a: self.shape() == (1, 1))
        if name == "shape":
            return self.shape()
        if name in ("size1", "size2"):
            return stub(lambda eng: self.shape()[int(name[-1]) - 1])
        if name in ("is_constant", "is_symbolic"):
            return stub(lambda eng: False)
        if name == "T":
            raise Unsupported("transpose of an array-literal term")
        raise Unsupported("MX.%s on an array-literal term" % name)

    def sym_eq(self, eng, other):
        return self is other


def literal_entry(v, i, j):
    """entry [i][j] of what exitArray stored for a two-level literal: a nested list is taken row by row, a CasADi matrix by (row, column)"""
    if isinstance(v, VList):
        row = v.items[i] if i < len(v.items) else None
        if isinstance(row, VList):
            return row.items[j] if j < len(row.items) else None
        if isinstance(row, AT):
            return row.entry(j, 0) if row.shape()[1] == 1 else row.entry(0, j)
        return None
    if isinstance(v, AT):
        return v.entry(i, j)
    return None


def h_array_literal(eng):
    """Generator.exitArray on a two-level literal {{e11, e12, ..}, {e21, ..}} (an attribute such as max = {{p, 2*p}, {3*p, 4}}): the inner
    literals are the ROWS of the Modelica array.  Whatever container the generator builds -- nested lists, or a CasADi matrix when an
    entry is symbolic -- its entry (i, j) is the j-th entry of the i-th inner literal."""
    from .gen_common import new_generator
    from .ast_common import base_modules
    base_modules(eng)
    rows, cols = [(2, 2), (2, 3), (3, 2)][eng.choice(3)]
    pattern = ["all numbers", "one symbolic entry", "all symbolic"][eng.choice(3)]
    eng.input("literal", {"rows": rows, "columns": cols, "entries": pattern})
    mx = VClass("MX")
    mx.constructor = lambda eng, c, a, k: a[0] if isinstance(a[0], AT) else AT("scalar", (), "const:%r" % (a[0],))
    cas = ModuleStub("casadi", {"MX": mx, "DM": VClass("DM"), "vertcat": stub(lambda eng, *a: AT("vcat", a)), "horzcat": stub(lambda eng, *a: AT("hcat", a)),
                                "vcat": stub(lambda eng, xs: AT("vcat", tuple(eng.iterate(xs)))), "hcat": stub(lambda eng, xs: AT("hcat", tuple(eng.iterate(xs))))})
    eng.ext_modules["casadi"] = cas
    eng.ext_modules["numpy"] = np_module()
    eng.ext_modules["pymoca.tree"] = ModuleStub("pymoca.tree", {"TreeListener": VClass("TreeListener"), "TreeWalker": VClass("TreeWalker"), "flatten": None})
    try:
        gm = eng.load_module(GEN)
        src = VDict()
        g = new_generator(eng, gm, {"src": src, "for_loops": VList([])})
        E, leaves = [], []
        for i_ in range(rows):
            E.append([])
            leaves.append([])
            for j_ in range(cols):
                symbolic = pattern == "all symbolic" or (pattern == "one symbolic entry" and (i_, j_) == (0, 1))
                val = AT("scalar", (), "e%d%d" % (i_ + 1, j_ + 1)) if symbolic else float(10 * (i_ + 1) + (j_ + 1))
                leaf = VObj(VClass("Primary"), {"value": val})
                ops.setitem(eng, src, leaf, val)
                E[-1].append(val)
                leaves[-1].append(leaf)
        f = eng.find_function(GEN, "Generator.exitArray")
        inner = [VObj(VClass("Array"), {"values": VList(leaves[i_])}) for i_ in range(rows)]
        for t in inner:
            eng.call(VBound(f, g), [t], {})
        outer = VObj(VClass("Array"), {"values": VList(inner)})
        eng.call(VBound(f, g), [outer], {})
        res = ops.getitem(eng, src, outer)
    finally:
        for k_ in ("pymoca.tree", "casadi", "numpy"):
            eng.ext_modules.pop(k_, None)
    eng.cover("array.done")
    bad = []
    for i_ in range(rows):
        for j_ in range(cols):
            got = literal_entry(res, i_, j_)
            same = (got is E[i_][j_]) or (isinstance(E[i_][j_], float) and (got == E[i_][j_] or (isinstance(got, AT) and got.label == "const:%r" % (E[i_][j_],))))
            if not same:
                bad.append(((i_ + 1, j_ + 1), getattr(got, "label", got)))
    eng.prove("array.entry_i_j_of_a_nested_literal_is_entry_j_of_its_i_th_inner_literal", z3.BoolVal(not bad), wrong=bad[:4])


def h_expanded_elements(eng):
    """Model._expand_vectors (reached with expand_vectors=True before the metadata function is built): every attribute
    of every scalar element is the attribute of the array at that element's own index, whatever container holds it
    (scalar, MX/DM matrix, nested list).  The harness is C18's contract of the same function, restricted to the
    variable cases that are not delay states; C13 depends on its attribute obligations."""
    from contracts import C18
    C18.h_expand(eng, cases=[c for c in C18.CASES if not c[3]])


HARNESSES = [("Generator.exitArray: nested array literals", h_array_literal), ("Model._expand_vectors: attributes of the scalar elements", h_expanded_elements), ("model.Variable.__init__", h_defaults), ("Generator._ast_symbols_to_variables/attributes", h_attribute_copy),
             ("Model.variable_metadata_function", h_metadata_function), ("Model._substitute_metadata", h_substitute_metadata),
             ("Model.variable_metadata_function: read, change, read", h_metadata_reread)]
EXPECTED_COVER = {"defaults.done", "copy.done", "meta.done", "submeta.done", "reread.done", "expand.done", "array.done"}
BOUNDED = True
LEVEL = "proof"
TRUSTED = ["pyvc VC generator", "z3 5.1.0",
           "CasADi: jacobian(jacobian(e, v), v).is_zero() iff e is affine in v; an affine f satisfies f(p) = J(0) p + f(0) (proved separately over reals: lemma below is elementary); DM/MX construction, repmat, veccat/horzcat column-major layout",
           "evaluation of attribute expressions at parameter values is CasADi's"]
ASSUMPTIONS = [
    "variable counts and sizes per category enumerated (4 shapes incl. a vector before a scalar and vector parameters); affinity facts of every attribute expression symbolic, with 'affine in the whole vector' implying 'affine in each parameter' but not conversely",
    "the attribute loop is verified for one symbol at a time (the loop body does not depend on other symbols)",
    "_substitute_metadata: three variables (float / int / bool), four placements of expression-valued attributes, five outcomes of the substitution per attribute (expression, number, integral number, inf, constant vector)",
]
EXPLANATION = "Defaults, attribute copy/coercion, metadata matrix layout and the guard of the affine rebuild."
MANIFEST = {
    "category": "proof",
    "text": "Variable's defaults, the attribute copy and Python-type coercion of _ast_symbols_to_variables (every attribute x value kind x declared type) and variable_metadata_function are verified on the real source: the metadata matrices have one column per attribute and the variables' rows in order (scalars repeated to the variable's size), and the affine shortcut is taken only if every attribute block is affine in the WHOLE parameter vector (a symbolic fact strictly stronger than affine in each parameter) and free of every operation the structural zero-Hessian test is blind to (piecewise-linear operations, comparisons, opaque function calls: the list of allowed operations is judged against a classification of all operation codes of the installed CasADi), in which case each output is reshape(J(0) p) + f(0). variable_metadata_function is a property of the model's CURRENT state: read, change (list replaced / attribute rewritten / variable moved), read again gives the function of the current variables; _substitute_metadata gives every expression-valued attribute its own substituted value in the declared Python type. A bounded replay evaluates real models' metadata at random parameter values. Model._expand_vectors (C18's contract) is discharged here for the attributes of the scalar elements. Generator.exitArray on two-level literals: entry (i, j) is entry j of the i-th inner literal, for nested lists and CasADi concatenations.",
    "note": "CasADi's algebra is assumed (affinity test via double Jacobian, layout, evaluation); shapes enumerated.",
    "technique": "contract-based deductive verification: symbolic execution with provenance-recording CasADi terms carrying ghost affinity facts, z3",
}
