"""C21 -- an interrupted or in-progress cache write never breaks later loads.

Both quantifiers of the property (a crash at any byte of the write; a reader that sees an unfinished
file) reduce to one symbolic input of load_model: the cache file is absent, or its content is such
that pickle.load raises one of its documented exceptions (a strict prefix of a pickle stream lacks
the final STOP opcode, so unpickling it always raises), or it is a complete file.
Functions under contract (real source, whole functions): load_model, transfer_model.
"""
import z3

from pyvc import ops
from pyvc.engine import EXC, make_exc
from pyvc.values import PyRaise, Unsupported, VBound, VClass, VDict, VList, VObj, stub

from . import api_common as A

MOD = A.MOD
ALLOWED = ("InvalidCacheError", "FileNotFoundError")


def h_load_unloadable(eng):
    """load_model on an absent / unloadable cache file raises InvalidCacheError or FileNotFoundError"""
    w = A.make_world(eng, with_db=False, pickle_outcomes=[e for e in A.PICKLE_EXCEPTIONS if e != "RuntimeError:other"])
    A.install(eng, w)
    f = eng.find_function(MOD, "load_model")
    try:
        eng.call(f, [A.PathStr("MODEL"), "M", VDict()], {})
    except PyRaise as e:
        name = e.exc.cls.name if isinstance(e.exc, VObj) else "?"
        eng.cover("load.unloadable.raises")
        # (P) the only exceptions an incomplete cache file may cause are the two transfer_model handles
        eng.prove("load.incomplete_file_raises_only_cache_errors", z3.BoolVal(name in ALLOWED), exc=name,
                  pickle=w.pickle_outcome)
        return
    eng.prove("load.incomplete_file_is_never_accepted", False)


def h_transfer(eng):
    """transfer_model: a load that fails with InvalidCacheError / FileNotFoundError leads to a
    recompile whose result is returned; nothing else is raised because of the cache"""
    w = A.make_world(eng, with_db=False)
    A.install(eng, w)
    cache = eng.input("option.cache", eng.fresh_bool("cache"))
    codegen = eng.input("option.codegen", eng.fresh_bool("codegen"))
    expand = eng.input("option.expand_mx", eng.fresh_bool("expand_mx"))
    opts = VDict([("cache", cache), ("codegen", codegen), ("expand_mx", expand), ("library_folders", VList([]))])
    w.current_options = opts
    outcome = ["returns", "InvalidCacheError", "FileNotFoundError"][eng.choice(3)]
    eng.input("load_model", outcome)
    log = {"load": 0, "compile": 0, "save": 0, "order": []}
    cached, fresh = VObj(VClass("CachedModel")), VObj(VClass("Model"))

    def load_model(eng, args, kwargs):
        log["load"] += 1
        log["order"].append("load")
        if outcome == "returns":
            return cached
        cls = eng.module_global(eng.load_module(MOD), "InvalidCacheError") if outcome == "InvalidCacheError" else EXC["FileNotFoundError"]
        raise PyRaise(VObj(cls, {"args": ("cache",)}))

    def compile_model(eng, args, kwargs):
        log["compile"] += 1
        log["order"].append("compile")
        return fresh

    def save_model(eng, args, kwargs):
        log["save"] += 1
        log["order"].append("save")
        log["saved"] = args[2]
    eng.call_contracts["load_model"] = load_model
    eng.call_contracts["_compile_model"] = compile_model
    eng.call_contracts["save_model"] = save_model
    # what transfer_model itself does to the folder between the failed load and the new save.  Rely condition ("in-progress"): another
    # transfer_model of the same model may be running the same code, so a file both calls name alike can disappear or appear between
    # any two operations of this call; alone, the cache file exists exactly when load_model found one (and rejected it)
    concurrent = bool(eng.choice(2))
    eng.input("another_transfer_model_of_this_model_is_running", concurrent)
    os_mod = eng.ext_modules["os"]
    state = {"exists": outcome != "FileNotFoundError"}

    def there(label):
        if concurrent:
            return eng.branch(eng.fresh_bool("exists_now"))
        return state["exists"]

    def remove(eng, p_):
        log["order"].append("remove")
        if not there(p_):
            raise PyRaise(VObj(EXC["FileNotFoundError"], {"args": ("cache",)}))
        state["exists"] = False

    def replace(eng, a_, b_):
        log["order"].append("replace")
        if not there(a_):
            raise PyRaise(VObj(EXC["FileNotFoundError"], {"args": ("cache",)}))
    for nm in ("remove", "unlink"):
        os_mod.attrs[nm] = stub(remove)
    for nm in ("replace", "rename"):
        os_mod.attrs[nm] = stub(replace)
    os_mod.attrs["path"].attrs["exists"] = stub(lambda eng, p_: there(p_))
    os_mod.attrs["path"].attrs["isfile"] = stub(lambda eng, p_: there(p_))
    f = eng.find_function(MOD, "transfer_model")
    try:
        r = eng.call(f, [A.PathStr("MODEL"), "M", opts], {})
    except PyRaise as e:
        eng.prove("transfer.never_raises_because_of_the_cache", False, exc=repr(e.exc))
        return
    eng.cover("transfer.returns")
    eng.prove("transfer.never_raises_because_of_the_cache", True)
    uses_cache = z3.Or(cache, codegen)
    if log["load"] and outcome == "returns":
        eng.prove("transfer.valid_cache_is_used", z3.BoolVal(r is cached and log["compile"] == 0))
    else:
        # (P) recompiling: the fresh model is returned, and stored for the next call when caching
        eng.prove("transfer.recompiles_when_cache_unusable", z3.BoolVal(r is fresh and log["compile"] == 1))
        eng.prove("transfer.saves_after_recompile_iff_caching", z3.BoolVal(log["save"] == 1 and log.get("saved") is fresh) == uses_cache)
    eng.prove("transfer.consults_cache_iff_caching", z3.BoolVal(log["load"] == 1) == uses_cache)


def h_save_over_leftovers(eng):
    """save_model: whatever an interrupted earlier save (or a writer still in progress) left in the folder -- any of the files
    save_model itself creates may already exist -- the next save_model completes, and when it returns the cache file holds the
    complete new dictionary.  (A crash point of save_model is a prefix of its file operations; the states reachable by such prefixes
    are over-approximated by 'every file it ever opens may or may not exist'.)"""
    w = A.make_world(eng, with_db=False, minimal_env=True)
    A.install(eng, w)
    codegen = bool(eng.choice(2))
    eng.input("codegen", codegen)
    opts = VDict([("codegen", codegen), ("cache", True), ("library_folders", VList([])), ("expand_mx", True)])
    model, objs = A.make_model(eng, {"states": 1, "der_states": 1, "parameters": 1})
    pre = {}
    rec = A.run_save(eng, w, model, opts, pre_existing=pre)
    eng.cover("save.done")
    # (P) no exception because of files that were already there
    eng.prove("save.completes_whatever_an_interrupted_save_left_behind", z3.BoolVal(rec["raised"] is None), raised=rec["raised"], opened=rec["opened"])
    if rec["raised"] is not None:
        return
    db_path = "MODEL/M.pymoca_cache"
    final = [p_ for p_, m_ in rec["opened"] if "w" in m_ or "x" in m_ or "a" in m_]
    wrote_direct = any(p_ == db_path for p_ in final)
    moved = any(dst == db_path for src, dst in rec["replaced"])
    eng.prove("save.cache_file_written_or_moved_into_place", z3.BoolVal(len(rec["dumps"]) == 1 and (wrote_direct or moved)))
    # no temporary file is left behind by a COMPLETED save (it would otherwise accumulate / block the next writer)
    stale = [p_ for p_ in final if p_ != db_path and not any(src == p_ for src, dst in rec["replaced"]) and p_ not in rec["removed"]]
    eng.prove("save.completed_save_leaves_no_temporary_file", z3.BoolVal(not stale), stale=stale)


def h_save_beside_a_concurrent_writer(eng):
    """Two transfer_model calls on the same folder that both miss the cache both run save_model, interleaved arbitrarily.  Rely: every
    file under a name both calls compute alike may be created, replaced or moved away by the other call at any moment.  (P) this
    call's save_model still completes (it returns its own correctly compiled model) -- so it must not depend on a shared temporary
    name surviving until it is moved into place."""
    w = A.make_world(eng, with_db=False, minimal_env=True)
    A.install(eng, w)
    opts = VDict([("codegen", False), ("cache", True), ("library_folders", VList([])), ("expand_mx", True)])
    model, objs = A.make_model(eng, {"states": 1, "der_states": 1})
    rec = A.run_save(eng, w, model, opts, concurrent_writer=True)
    eng.cover("save.twin")
    eng.prove("save.completes_beside_a_concurrent_writer_of_the_same_model", z3.BoolVal(rec["raised"] is None), raised=rec["raised"], opened=rec["opened"],
              replaced=rec["replaced"])


HARNESSES = [("api.load_model/unloadable-cache-file", h_load_unloadable), ("api.transfer_model", h_transfer),
             ("api.save_model over the leftovers of an interrupted save", h_save_over_leftovers),
             ("api.save_model beside a concurrent writer", h_save_beside_a_concurrent_writer)]
EXPECTED_COVER = {"load.unloadable.raises", "transfer.returns", "save.done", "save.twin"}
BOUNDED = True
LEVEL = "proof"
TRUSTED = ["pyvc VC generator", "z3 5.1.0",
           "pickle.load on an incomplete stream raises one of: UnpicklingError, EOFError, AttributeError, ImportError/ModuleNotFoundError, IndexError, KeyError, TypeError, ValueError, or CasADi's RuntimeError(deserialization) -- the documented open-ended set, fixed to this list",
           "a strict prefix of a pickle stream never unpickles successfully (it lacks the final STOP opcode)",
           "os.path.getmtime / open raise FileNotFoundError for an absent file"]
ASSUMPTIONS = [
    "torn writes of the code-generated shared libraries are outside (the cache file is written after them)",
    "a RuntimeError from pickle.load that is not a CasADi deserialization error is re-raised by design (not caused by truncation)",
    "two interleaved transfer_model calls: the reader side through what it can observe (an absent, incomplete or complete file); the writer side by a rely condition (files under names both calls compute alike may appear, be replaced or vanish between any two operations); no scheduler is explored",
]
EXPLANATION = "Exception-flow contract of load_model for every class of incomplete cache file, and of transfer_model for every outcome of load_model."
MANIFEST = {
    "category": "proof",
    "text": "load_model is executed symbolically with the cache file absent or unloadable in each of the ways pickle.load is documented to fail, for all folder contents and mtimes: only InvalidCacheError or FileNotFoundError can result; transfer_model is verified to turn exactly those into a recompile whose result is returned (and saved when caching). save_model itself is executed with every file it opens possibly left over from an interrupted or concurrent earlier save: it still completes, puts the complete dictionary at the cache path and leaves no temporary file. A bounded replay truncates a real cache file at every offset class and calls the real transfer_model.",
    "note": "Assumed: pickle.load's documented exception set and that a strict prefix of a pickle never loads; torn shared-library writes and genuine reader/writer scheduling are outside.",
    "technique": "contract-based deductive verification: exceptional postconditions by whole-function symbolic execution against an assumed pickle/os contract, z3",
}
