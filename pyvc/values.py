"""Value model of the pyvc symbolic executor.

Concrete Python scalars (int, bool, float, str, None, tuple) stand for themselves.
Symbolic scalars are z3 expressions (Int, Real, Bool, String sorts).
Mutable containers / instances are Python objects of the classes below; *Python object identity is
heap identity*, so two program variables bound to the same VSet observe each other's in-place
updates.  A path is executed from scratch (re-execution forking), so heap objects never need to
be copied.
Property-specific abstract data (sets as z3 arrays, maps as z3 arrays, opaque dependency objects)
derive from Ext and implement the sym_* protocol.
"""
import z3


class Unsupported(Exception):
    """The construct is outside the verified subset: the path is undecided, never proved."""


class PathEnd(Exception):
    """The current path ends here (e.g. after checking that a loop body preserves the invariant)."""


class Infeasible(PathEnd):
    pass


class PyRaise(Exception):
    """An exception raised by the interpreted program."""

    def __init__(self, exc):
        super().__init__(repr(exc))
        self.exc = exc


class VClass:
    """A class: either read from repo source (node is an ast.ClassDef) or a built-in/dependency
    class declared by name only."""

    def __init__(self, name, bases=(), node=None, module=None, attrs=None):
        self.name = name
        self.bases = list(bases)
        self.node = node
        self.module = module
        self.attrs = attrs if attrs is not None else {}
        self.abstract_external = node is None

    def mro(self):
        out = [self]
        for b in self.bases:
            for c in b.mro():
                if c not in out:
                    out.append(c)
        return out

    def is_subclass_of(self, other):
        return any(c is other or c.name == other.name for c in self.mro())

    def lookup(self, attr):
        for c in self.mro():
            if attr in c.attrs:
                return c.attrs[attr], c
        return None, None

    def __repr__(self):
        return "<class %s>" % self.name


class VObj:
    def __init__(self, cls, fields=None):
        self.cls = cls
        self.fields = fields if fields is not None else {}

    def __repr__(self):
        return "<%s obj %s>" % (self.cls.name, {k: v for k, v in list(self.fields.items())[:4]})


class VFunc:
    def __init__(self, node, module, closure=None, cls=None, name=None):
        self.node = node
        self.module = module
        self.closure = closure
        self.cls = cls
        self.name = name or getattr(node, "name", "<lambda>")
        self.attrs = {}
        self.kind = "function"  # function | staticmethod | classmethod | property

    def qualname(self):
        return (self.cls.name + "." if self.cls else "") + self.name

    def __repr__(self):
        return "<function %s>" % self.qualname()


class VBound:
    def __init__(self, func, self_obj):
        self.func = func
        self.self_obj = self_obj


class VList:
    def __init__(self, items=None):
        self.items = list(items) if items is not None else []

    def __repr__(self):
        return "VList(%r)" % (self.items,)


class VDict:
    """dict with concrete key *structure*: keys are compared with concrete equality when both are
    concrete, otherwise the operation is delegated to the engine (branching on equality)."""

    def __init__(self, pairs=None):
        self.keys = []
        self.vals = []
        for k, v in pairs or []:
            self.keys.append(k)
            self.vals.append(v)

    def __repr__(self):
        return "VDict(%r)" % (list(zip(self.keys, self.vals)),)


class VSet:
    def __init__(self, items=None):
        self.items = list(items) if items is not None else []

    def __repr__(self):
        return "VSet(%r)" % (self.items,)


class VSlice:
    def __init__(self, start, stop, step):
        self.start, self.stop, self.step = start, stop, step

    def __repr__(self):
        return "slice(%r,%r,%r)" % (self.start, self.stop, self.step)


class VModule:
    def __init__(self, name, globals_=None):
        self.name = name
        self.globals = globals_ if globals_ is not None else {}
        self.lazy = {}

    def __repr__(self):
        return "<module %s>" % self.name


class Ext:
    """Base of contract-defined abstract values.  Any sym_* hook that is not overridden makes the
    operation unsupported (the path becomes undecided)."""

    type_names = ()

    def sym_getattr(self, eng, name):
        raise Unsupported("getattr %s on %s" % (name, type(self).__name__))

    def sym_setattr(self, eng, name, value):
        raise Unsupported("setattr %s on %s" % (name, type(self).__name__))

    def sym_call(self, eng, args, kwargs):
        raise Unsupported("call of %s" % type(self).__name__)

    def sym_getitem(self, eng, key):
        raise Unsupported("getitem on %s" % type(self).__name__)

    def sym_setitem(self, eng, key, value):
        raise Unsupported("setitem on %s" % type(self).__name__)

    def sym_delitem(self, eng, key):
        raise Unsupported("delitem on %s" % type(self).__name__)

    def sym_contains(self, eng, item):
        raise Unsupported("contains on %s" % type(self).__name__)

    def sym_len(self, eng):
        raise Unsupported("len on %s" % type(self).__name__)

    def sym_truth(self, eng):
        return True

    def sym_iter(self, eng):
        """Return a concrete list of element values, or raise Unsupported (a loop contract is
        then required)."""
        raise Unsupported("iteration over %s needs a loop contract" % type(self).__name__)

    def sym_binop(self, eng, op, other, reflected):
        raise Unsupported("binop %s on %s" % (op, type(self).__name__))

    def sym_inplace(self, eng, op, other):
        return NotImplemented

    def sym_unop(self, eng, op):
        raise Unsupported("unop %s on %s" % (op, type(self).__name__))

    def sym_eq(self, eng, other):
        return self is other

    def sym_isinstance(self, eng, cls):
        return cls.name in self.type_names


class NoOp(Ext):
    """logger-like object: every attribute is a no-op callable returning None."""

    def sym_getattr(self, eng, name):
        return self

    def sym_call(self, eng, args, kwargs):
        return None


def stub(fn):
    """Mark a Python callable as an engine-aware stub: called as fn(eng, *args, **kwargs)."""
    fn._pyvc_stub = True
    return fn


def is_sym(v):
    return isinstance(v, z3.ExprRef)


def is_concrete_scalar(v):
    return v is None or isinstance(v, (int, float, str, bool))


class AnyValue(Ext):
    """A value about which nothing is known (content of mutable global state at call entry: the
    history quantifier makes every call's pre-state arbitrary).  Every observation yields a fresh
    unconstrained result, so no path through the function can rely on it."""

    def __init__(self, label):
        self.label = label

    def _fresh(self, eng, what):
        eng.abstraction("mutable module-level state `%s` is arbitrary at call entry" % self.label.split(".")[0].split("[")[0])
        return AnyValue("%s.%s" % (self.label, what))

    def sym_getattr(self, eng, name):
        me = self
        if name in ("get", "pop", "setdefault", "copy", "keys", "values", "items", "index", "count"):
            return stub(lambda eng, *a, **k: me._fresh(eng, name + "()"))
        if name in ("add", "append", "update", "extend", "discard", "remove", "clear", "insert", "sort"):
            return stub(lambda eng, *a, **k: None)
        return self._fresh(eng, name)

    def sym_setattr(self, eng, name, value):
        pass

    def sym_call(self, eng, args, kwargs):
        return self._fresh(eng, "()")

    def sym_getitem(self, eng, key):
        return self._fresh(eng, "[]")

    def sym_setitem(self, eng, key, value):
        pass

    def sym_delitem(self, eng, key):
        pass

    def sym_contains(self, eng, item):
        return eng.fresh_bool("any_in")

    def sym_len(self, eng):
        n = eng.fresh_int("any_len")
        eng.assume(n >= 0)
        return n

    def sym_truth(self, eng):
        return eng.fresh_bool("any_truth")

    def sym_iter(self, eng):
        raise Unsupported("iteration over arbitrary global state %s" % self.label)

    def sym_binop(self, eng, op, other, reflected):
        if op in ("Lt", "LtE", "Gt", "GtE"):
            return eng.fresh_bool("any_cmp")
        return self._fresh(eng, op)

    def sym_inplace(self, eng, op, other):
        return self

    def sym_unop(self, eng, op):
        return self._fresh(eng, op)

    def sym_eq(self, eng, other):
        return eng.fresh_bool("any_eq")

    def sym_isinstance(self, eng, cls):
        return eng.fresh_bool("any_isinstance")
